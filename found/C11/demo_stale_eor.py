"""C11: an `announce eor` accepted just before a session loss is sent on the NEXT session, in the middle of the
replay of the Adj-RIB-Out: the peer receives an End-of-RIB before the routes, and a second one after them.

The command is queued in Neighbor.eor; Neighbor.reset_rib() (called by Peer._reset) empties the other queues
(messages, refresh) and the RIB, but not this one, and Peer._send_eor_messages serves it as soon as the new
session is up, while the generator of the initial batch is still running (25 UPDATEs per loop iteration).

Real Configuration / Neighbor / Peer / Protocol / OutgoingRIB; only the TCP connection is faked.
Run: PYTHONPATH=/tmp/hunt-C11/src /venv/bin/python -m pytest demo_stale_eor.py
"""

import asyncio
import os
import struct

from exabgp.bgp.fsm import FSM
from exabgp.bgp.message import EOR, Message, Open
from exabgp.bgp.message.direction import Direction
from exabgp.bgp.message.open import Version
from exabgp.bgp.message.open.capability import Capabilities, Negotiated
from exabgp.configuration.configuration import Configuration
from exabgp.environment import getenv
from exabgp.reactor import protocol as protocol_module
from exabgp.reactor.network.error import LostConnection
from exabgp.reactor.loop import Reactor
from exabgp.reactor.peer.peer import Peer
from exabgp.rib import RIB

LOCAL = """
neighbor 127.0.0.2 {
  router-id 1.2.3.4; local-address 127.0.0.1; local-as 65001; peer-as 65002; hold-time 180;
  group-updates false;
  family { ipv4 unicast; }
  static { %s }
}
""" % ' '.join(f'route 10.0.{i}.0/24 next-hop 1.1.1.1;' for i in range(40))
REMOTE = """
neighbor 127.0.0.1 {
  router-id 5.6.7.8; local-address 127.0.0.2; local-as 65002; peer-as 65001; hold-time 180;
  family { ipv4 unicast; }
}
"""
KEEPALIVE = b'\xff' * 16 + b'\x00\x13\x04'


def parse(text, whole=False):
    cwd = os.getcwd()
    configuration = Configuration([text], text=True)
    assert configuration.reload(), configuration.error
    os.chdir(cwd)
    return configuration if whole else list(configuration.neighbors.values())[0]


def remote_open():
    """The OPEN a speaker configured as REMOTE sends (built by ExaBGP itself)."""
    saved = dict(RIB._cache)
    n = parse(REMOTE)
    RIB._cache.clear()
    RIB._cache.update(saved)
    sent = Open.make_open(Version(4), n.session.local_as, n.hold_time, n.session.router_id, Capabilities().new(n, False))
    return sent.pack_message(Negotiated.make_negotiated(n, Direction.OUT))


class Wire:
    """Stands for reactor.network.outgoing.Outgoing: a connection to a well-behaved remote speaker."""

    made = []
    hello = b''

    def __init__(self, *args, **kwargs):
        self.sent, self.closed, self.local, self.msg_size = [], False, '127.0.0.1', 4096
        self.rx = asyncio.Queue()
        self.rx.put_nowait(Wire.hello)
        self.rx.put_nowait(KEEPALIVE)
        Wire.made.append(self)

    async def establish_async(self):
        return True

    def fd(self): return 99
    def session(self): return 'wire'
    def name(self): return 'wire'
    def close(self): self.closed = True

    async def writer_async(self, raw):
        if self.closed:
            raise LostConnection('closed')
        self.sent.append(bytes(raw))

    async def reader_async(self):
        raw = await self.rx.get()
        if raw is None:  # the remote end went away
            self.closed = True
            raise LostConnection('the TCP session was closed')
        return struct.unpack('!H', raw[16:18])[0], raw[18], memoryview(raw[:19]), memoryview(raw[19:]), None


class Helpers:
    answers = []
    def broken(self, neighbor): return False
    async def answer_done(self, service, *a): self.answers.append('done')
    async def answer_error(self, service, *a): self.answers.append('error')
    def __getattr__(self, name): return lambda *a, **k: None


def received_by_the_peer(wire, negotiated):
    """(what the UPDATEs carry, in order: a prefix or 'EOR'; End-of-RIB families) as the remote decodes them."""
    routes, eors = [], []
    for raw in wire.sent:
        if raw[18] != Message.CODE.UPDATE:
            continue
        message = Message.unpack(raw[18], raw[19:], negotiated)
        if isinstance(message, EOR):
            eors.append((int(message.nlris[0].afi), int(message.nlris[0].safi)))
            routes.append('EOR')
            continue
        routes.extend(str(getattr(r, 'nlri', r)) for r in message.data.announces)
    return routes, eors


async def until(condition, seconds=20.0):
    end = asyncio.get_event_loop().time() + seconds
    while not condition():
        assert asyncio.get_event_loop().time() < end, 'timeout'
        await asyncio.sleep(0.02)


async def scenario():
    RIB._cache.clear()
    getenv().tcp.attempts = 0
    Wire.made, Wire.hello = [], remote_open()
    protocol_module.Outgoing = Wire
    configuration = parse(LOCAL, whole=True)
    cwd, mask = os.getcwd(), os.umask(0)
    reactor = Reactor(configuration)  # the real one (not run: the test plays its main loop)
    os.chdir(cwd)
    os.umask(mask)
    reactor.processes = Helpers()
    neighbor = list(configuration.neighbors.values())[0]
    peer = reactor._peers[neighbor.name()] = Peer(neighbor, reactor)
    task = asyncio.ensure_future(peer.run())
    seen = []
    try:
        for number in (1, 2):
            await until(lambda: len(Wire.made) == number and peer.fsm == FSM.ESTABLISHED)
            wire, negotiated = Wire.made[-1], peer.proto.negotiated
            await until(lambda: len(received_by_the_peer(wire, negotiated)[1]) >= 1)
            await asyncio.sleep(0.8)
            seen.append(received_by_the_peer(wire, negotiated))
            if number == 1:
                # the TCP session dies at the very moment the helper program asks for an End-of-RIB
                wire.rx.put_nowait(None)
                reactor.api.process(reactor, 'api-internal-cli-demo', 'peer * announce eor ipv4 unicast')
                await reactor.asynchronous._run_async()  # what Reactor._async_main_loop does with API commands
                assert Helpers.answers == ['done'], Helpers.answers
                await until(lambda: wire.closed and peer.fsm != FSM.ESTABLISHED)
    finally:
        task.cancel()
    return seen


def test_no_end_of_rib_before_the_replayed_routes():
    first, second = asyncio.run(scenario())
    assert first[0].count('EOR') == 1 and first[0][-1] == 'EOR' and len(first[0]) == 41, first
    order, eors = second
    assert len([x for x in order if x != 'EOR']) == 40, order  # the whole Adj-RIB-Out is replayed ...
    # ... "followed by an End-of-RIB marker for each negotiated family": one marker, after the last route
    assert order.index('EOR') == 40, 'End-of-RIB received after %d of the 40 routes: %r' % (order.index('EOR'), order)
    assert eors == [(1, 1)], eors
