"""C11: with `capability { multi-session; }` only the routes of ONE family are re-advertised after a session loss.

ParseNeighbor.post() sets rib.outgoing.families to a single family (the last of the loop) on the RIB
which, the copies of the neighbor having the same name, all share: replace_restart() then only finds
the cached routes of that family.

Real Configuration / Neighbor / Peer / Protocol / OutgoingRIB; only the TCP connection is faked.
Run: PYTHONPATH=/tmp/hunt-C11/src /venv/bin/python -m pytest demo_multisession_families.py
"""

import asyncio
import os
import struct

from exabgp.bgp.fsm import FSM
from exabgp.bgp.message import EOR, Message, Open
from exabgp.bgp.message.direction import Direction
from exabgp.bgp.message.open import Version
from exabgp.bgp.message.open.capability import Capabilities, Negotiated
from exabgp.configuration.configuration import Configuration
from exabgp.environment import getenv
from exabgp.reactor import protocol as protocol_module
from exabgp.reactor.network.error import LostConnection
from exabgp.reactor.peer.peer import Peer
from exabgp.rib import RIB

LOCAL = """
neighbor 127.0.0.2 {
  router-id 1.2.3.4; local-address 127.0.0.1; local-as 65001; peer-as 65002; hold-time 180;
  capability { multi-session; }
  family { ipv4 unicast; ipv6 unicast; }
  static { route 10.0.0.0/24 next-hop 1.1.1.1; route 2001:db8::/48 next-hop 2001:db8::1; }
}
"""
REMOTE = """
neighbor 127.0.0.1 {
  router-id 5.6.7.8; local-address 127.0.0.2; local-as 65002; peer-as 65001; hold-time 180;
  capability { multi-session; }
  family { ipv4 unicast; ipv6 unicast; }
}
"""
KEEPALIVE = b'\xff' * 16 + b'\x00\x13\x04'


def parse(text):
    cwd = os.getcwd()
    configuration = Configuration([text], text=True)
    assert configuration.reload(), configuration.error
    os.chdir(cwd)
    return list(configuration.neighbors.values())[0]


def remote_open():
    """The OPEN a speaker configured as REMOTE sends (built by ExaBGP itself)."""
    saved = dict(RIB._cache)
    n = parse(REMOTE)
    RIB._cache.clear()
    RIB._cache.update(saved)
    sent = Open.make_open(Version(4), n.session.local_as, n.hold_time, n.session.router_id, Capabilities().new(n, False))
    return sent.pack_message(Negotiated.make_negotiated(n, Direction.OUT))


class Wire:
    """Stands for reactor.network.outgoing.Outgoing: a connection to a well-behaved remote speaker."""

    made = []
    hello = b''

    def __init__(self, *args, **kwargs):
        self.sent, self.closed, self.local, self.msg_size = [], False, '127.0.0.1', 4096
        self.rx = asyncio.Queue()
        self.rx.put_nowait(Wire.hello)
        self.rx.put_nowait(KEEPALIVE)
        Wire.made.append(self)

    async def establish_async(self):
        return True

    def fd(self): return 99
    def session(self): return 'wire'
    def name(self): return 'wire'
    def close(self): self.closed = True

    async def writer_async(self, raw):
        if self.closed:
            raise LostConnection('closed')
        self.sent.append(bytes(raw))

    async def reader_async(self):
        raw = await self.rx.get()
        if raw is None:  # the remote end went away
            self.closed = True
            raise LostConnection('the TCP session was closed')
        return struct.unpack('!H', raw[16:18])[0], raw[18], memoryview(raw[:19]), memoryview(raw[19:]), None


class Helpers:
    def broken(self, neighbor): return False
    def __getattr__(self, name): return lambda *a, **k: None


class Reactor:
    processes = Helpers()


def received_by_the_peer(wire, negotiated):
    """(prefixes announced, End-of-RIB families), in order, as the remote decodes our UPDATEs."""
    routes, eors = [], []
    for raw in wire.sent:
        if raw[18] != Message.CODE.UPDATE:
            continue
        message = Message.unpack(raw[18], raw[19:], negotiated)
        if isinstance(message, EOR):
            eors.append((int(message.nlris[0].afi), int(message.nlris[0].safi)))
            continue
        routes.extend(str(getattr(r, 'nlri', r)) for r in message.data.announces)
    return routes, eors


async def until(condition, seconds=20.0):
    end = asyncio.get_event_loop().time() + seconds
    while not condition():
        assert asyncio.get_event_loop().time() < end, 'timeout'
        await asyncio.sleep(0.02)


async def scenario():
    RIB._cache.clear()
    getenv().tcp.attempts = 0
    Wire.made, Wire.hello = [], remote_open()
    protocol_module.Outgoing = Wire
    peer = Peer(parse(LOCAL), Reactor())
    task = asyncio.ensure_future(peer.run())
    seen = []
    try:
        for number in (1, 2):
            await until(lambda: len(Wire.made) == number and peer.fsm == FSM.ESTABLISHED)
            wire, negotiated = Wire.made[-1], peer.proto.negotiated
            await until(lambda: len(received_by_the_peer(wire, negotiated)[1]) >= 2)
            await asyncio.sleep(0.5)
            seen.append(received_by_the_peer(wire, negotiated))
            wire.rx.put_nowait(None)  # session loss
            await until(lambda: wire.closed and peer.fsm != FSM.ESTABLISHED)
    finally:
        task.cancel()
    return seen


def test_every_family_is_readvertised_with_multisession():
    first, second = asyncio.run(scenario())
    assert sorted(first[0]) == ['10.0.0.0/24', '2001:db8::/48'], first
    assert sorted(first[1]) == [(1, 1), (2, 1)], first
    # after the loss the peer has flushed everything: the complete table must come again, then the EORs
    assert sorted(second[1]) == [(1, 1), (2, 1)], second
    assert sorted(second[0]) == ['10.0.0.0/24', '2001:db8::/48'], (
        'configured routes missing on the re-established session: the peer received %r' % (second,)
    )
