"""C17: a file with one closing brace too many is neither refused nor applied: it is cut short.

Configuration.dispatch() returns True on '}' whatever the depth, so a '}' read at the top level ends
parse_section('root') with success and the rest of the file is never read.  The reload "succeeds" with
the neighbors found before the stray brace; Reactor.reload() then removes every other running peer.
"""

import os

import pytest

from exabgp.configuration.configuration import Configuration
from exabgp.reactor.api.processes import Processes
from exabgp.reactor.loop import Reactor
from exabgp.rib import RIB

NEIGHBOR = """
neighbor 127.0.0.%(n)d {
  router-id 1.2.3.4; local-address 127.0.0.1; local-as 65001; peer-as 6500%(n)d; passive true;
  static { route 10.0.%(n)d.0/24 next-hop 1.1.1.1; }%(typo)s
}
"""
GOOD = NEIGHBOR % dict(n=1, typo='') + NEIGHBOR % dict(n=2, typo='')
BROKEN = {
    # the operator adds a route and leaves a brace too many
    'after-static-section': (NEIGHBOR % dict(n=1, typo=' }') + NEIGHBOR % dict(n=2, typo='')).replace(
        'route 10.0.1.0/24 next-hop 1.1.1.1;', 'route 10.0.1.0/24 next-hop 1.1.1.1; route 10.9.9.0/24 next-hop 1.1.1.1;'
    ),
    'between-neighbors': NEIGHBOR % dict(n=1, typo='') + '}\n' + NEIGHBOR % dict(n=2, typo=''),
}


def make_reactor(text):
    RIB._cache.clear()
    cwd, mask = os.getcwd(), os.umask(0o022)
    configuration = Configuration([text], text=True)
    reactor = Reactor(configuration)  # Daemon() changes directory and umask
    os.chdir(cwd)
    os.umask(mask)
    reactor.processes = Processes()
    return reactor, configuration


def running(reactor):
    return sorted(str(peer.neighbor.session.peer_address) for peer in reactor._peers.values() if peer._restart)


@pytest.mark.parametrize('where', sorted(BROKEN))
def test_unbalanced_file_is_refused_or_fully_read(where):
    reactor, configuration = make_reactor(GOOD)
    assert reactor.reload() is True
    assert running(reactor) == ['127.0.0.1', '127.0.0.2']

    assert BROKEN[where].count('{') + 1 == BROKEN[where].count('}')
    configuration._configurations[:] = [BROKEN[where]]
    accepted = reactor.reload()

    # either the broken file is refused and nothing changes, or all of it is read: in both cases
    # 127.0.0.2, which is still in the file, keeps its peer
    assert running(reactor) == ['127.0.0.1', '127.0.0.2'], f'reload() returned {accepted}, peers left: {running(reactor)}'
    assert len(configuration.neighbors) == 2
