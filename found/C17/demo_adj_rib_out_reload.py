"""C17: 'adj-rib-out false' -> 'adj-rib-out true' by reload: the peer ends up with no route at all.

The OutgoingRIB of a neighbor is shared between the running session and the newly parsed Neighbor
(RIB._cache).  RIB.enable()/RIB.commit() apply the new families and empty the RIB when the new file says
'adj-rib-out false', but never set OutgoingRIB.cache: it keeps the value of the first file for ever.
adj-rib-out is part of Neighbor.__eq__, so the reload re-establishes the session: Peer._reset() empties
the queue (reset_rib) counting on the cache to fill it again (replace_restart), the cache is still
switched off, and the new session starts with an empty table although the new file holds two routes.
"""

import asyncio
import os
import struct

from exabgp.configuration.configuration import Configuration
from exabgp.reactor.api.processes import Processes
from exabgp.reactor.interrupt import Signal
from exabgp.reactor.loop import Reactor
from exabgp.rib import RIB

CFG = """
neighbor 127.0.0.1 {
  router-id 1.2.3.4; local-address 127.0.0.1; local-as 65001; peer-as 65002; hold-time %d; connect %d;
  adj-rib-out %s;
  family { ipv4 unicast; }
  static { route 10.0.0.0/24 next-hop 1.1.1.1; %s }
}
"""
MARKER = b'\xff' * 16


class Speaker:
    """the remote BGP router: answers OPEN/KEEPALIVE, keeps the table of the current session (ipv4 unicast)"""

    def __init__(self):
        self.table, self.sessions = set(), 0

    async def serve(self, reader, writer):
        self.sessions += 1
        self.table = set()
        caps = bytes([2, 6, 1, 4, 0, 1, 0, 1]) + bytes([2, 6, 65, 4]) + struct.pack('!L', 65002)
        body = bytes([4]) + struct.pack('!HH', 65002, 30) + bytes([9, 9, 9, 9, len(caps)]) + caps
        writer.write(MARKER + struct.pack('!HB', 19 + len(body), 1) + body)
        try:
            while True:
                head = await reader.readexactly(19)
                size, kind = struct.unpack('!HB', head[16:])
                data = await reader.readexactly(size - 19)
                if kind in (1, 4):
                    writer.write(MARKER + struct.pack('!HB', 19, 4))
                if kind == 2:
                    wlen = struct.unpack('!H', data[:2])[0]
                    alen = struct.unpack('!H', data[2 + wlen : 4 + wlen])[0]
                    for kill, blob in ((True, data[2 : 2 + wlen]), (False, data[4 + wlen + alen :])):
                        while blob:
                            nbytes = (blob[0] + 7) // 8
                            prefix = '.'.join(str(b) for b in blob[1 : 1 + nbytes].ljust(4, b'\0')) + '/%d' % blob[0]
                            self.table.discard(prefix) if kill else self.table.add(prefix)
                            blob = blob[1 + nbytes :]
        except (asyncio.IncompleteReadError, ConnectionError):
            pass


async def until(condition, seconds=10.0):
    for _ in range(int(seconds / 0.05)):
        if condition():
            return True
        await asyncio.sleep(0.05)
    return False


async def scenario(first, second, hold=30):
    speaker = Speaker()
    server = await asyncio.start_server(speaker.serve, '127.0.0.1', 0)
    port = server.sockets[0].getsockname()[1]
    RIB._cache.clear()
    cwd, mask = os.getcwd(), os.umask(0o022)
    configuration = Configuration([CFG % (30, port, first, '')], text=True)
    reactor = Reactor(configuration)
    os.chdir(cwd)
    os.umask(mask)
    reactor.processes = Processes()
    assert reactor.reload()
    main = asyncio.ensure_future(reactor._async_main_loop())
    try:
        assert await until(lambda: speaker.table == {'10.0.0.0/24'}), speaker.table
        configuration._configurations[:] = [CFG % (hold, port, second, 'route 10.0.1.0/24 next-hop 1.1.1.1;')]
        reactor.signal.received = Signal.RELOAD
        assert await until(lambda: speaker.sessions == 2), 'such a change re-establishes the session'
        await until(lambda: len(speaker.table) == 2, 4.0)
        flag = next(iter(reactor._peers.values())).neighbor.rib.outgoing.cache
        return speaker.table, flag
    finally:
        reactor.signal.received = Signal.SHUTDOWN
        await asyncio.wait([main], timeout=5)
        server.close()


def test_control_session_reestablished_by_a_reload_keeping_adj_rib_out_true():
    table, flag = asyncio.run(scenario('true', 'true', hold=60))
    assert table == {'10.0.0.0/24', '10.0.1.0/24'} and flag is True


def test_reload_switching_adj_rib_out_on():
    table, flag = asyncio.run(scenario('false', 'true'))
    assert table == {'10.0.0.0/24', '10.0.1.0/24'}, f'after the reload the peer holds {sorted(table)}'
    assert flag is True, 'the new file says adj-rib-out true'
