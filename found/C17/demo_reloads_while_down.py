"""C17: session down, a reload which changes the session and removes a route, then any other reload:
the removed route is announced when the session comes up.

Peer.reestablish(neighbor) only stores the new Neighbor in Peer._neighbor; the routes to remove are kept
in neighbor.previous (the Neighbor of the previous *file*) until the next session starts
(replace_restart).  While the session is down the Peer keeps its old Neighbor until the connection
attempt in progress ends, so a second reload compares with that old Neighbor again, calls reestablish()
again, and the Neighbor it stores only knows the routes of the file of the first reload as 'previous'.
What the first reload removed is still cached in the shared Adj-RIB-Out and is sent with the rest.
"""

import asyncio
import os
import socket
import struct

from exabgp.configuration.configuration import Configuration
from exabgp.reactor.api.processes import Processes
from exabgp.reactor.interrupt import Signal
from exabgp.reactor.loop import Reactor
from exabgp.rib import RIB

CFG = """
neighbor 127.0.0.1 {
  router-id 1.2.3.4; local-address 127.0.0.1; local-as 65001; peer-as 65002; hold-time %d; connect %d;
  family { ipv4 unicast; }
  static { route 10.0.0.0/24 next-hop 1.1.1.1; %s }
}
"""
GONE = 'route 10.0.1.0/24 next-hop 1.1.1.1;'
MARKER = b'\xff' * 16


class Speaker:
    """the remote BGP router: answers OPEN/KEEPALIVE, keeps the table of the current session (ipv4 unicast)"""

    def __init__(self):
        self.table, self.holds = set(), []

    async def serve(self, reader, writer):
        self.table = set()
        caps = bytes([2, 6, 1, 4, 0, 1, 0, 1]) + bytes([2, 6, 65, 4]) + struct.pack('!L', 65002)
        body = bytes([4]) + struct.pack('!HH', 65002, 90) + bytes([9, 9, 9, 9, len(caps)]) + caps
        writer.write(MARKER + struct.pack('!HB', 19 + len(body), 1) + body)
        try:
            while True:
                head = await reader.readexactly(19)
                size, kind = struct.unpack('!HB', head[16:])
                data = await reader.readexactly(size - 19)
                if kind == 1:
                    self.holds.append(struct.unpack('!H', data[3:5])[0])
                if kind in (1, 4):
                    writer.write(MARKER + struct.pack('!HB', 19, 4))
                if kind == 2:
                    wlen = struct.unpack('!H', data[:2])[0]
                    alen = struct.unpack('!H', data[2 + wlen : 4 + wlen])[0]
                    for kill, blob in ((True, data[2 : 2 + wlen]), (False, data[4 + wlen + alen :])):
                        while blob:
                            nbytes = (blob[0] + 7) // 8
                            prefix = '.'.join(str(b) for b in blob[1 : 1 + nbytes].ljust(4, b'\0')) + '/%d' % blob[0]
                            self.table.discard(prefix) if kill else self.table.add(prefix)
                            blob = blob[1 + nbytes :]
        except (asyncio.IncompleteReadError, ConnectionError):
            pass


async def until(condition, seconds=10.0):
    for _ in range(int(seconds / 0.05)):
        if condition():
            return True
        await asyncio.sleep(0.05)
    return False


async def scenario(reloads):
    with socket.socket() as probe:  # a port nobody listens on yet: the remote router is down
        probe.bind(('127.0.0.1', 0))
        port = probe.getsockname()[1]
    RIB._cache.clear()
    cwd, mask = os.getcwd(), os.umask(0o022)
    configuration = Configuration([CFG % (30, port, GONE)], text=True)
    reactor = Reactor(configuration)
    os.chdir(cwd)
    os.umask(mask)
    reactor.processes = Processes()
    assert reactor.reload()
    main = asyncio.ensure_future(reactor._async_main_loop())
    speaker, server = Speaker(), None
    try:
        await asyncio.sleep(0.3)  # connection refused, ExaBGP keeps trying
        for _ in range(reloads):
            # hold-time 60 and 10.0.1.0/24 removed; the second SIGUSR1 re-reads the very same file
            configuration._configurations[:] = [CFG % (60, port, '')]
            before = next(iter(configuration.neighbors.values()))
            reactor.signal.received = Signal.RELOAD
            assert await until(lambda: next(iter(configuration.neighbors.values())) is not before)
            await asyncio.sleep(0.1)
        server = await asyncio.start_server(speaker.serve, '127.0.0.1', port)  # the remote router is back
        assert await until(lambda: speaker.holds[-1:] == [60] and speaker.table, 15.0), (speaker.holds, speaker.table)
        await asyncio.sleep(0.5)
        return speaker.table
    finally:
        reactor.signal.received = Signal.SHUTDOWN
        await asyncio.wait([main], timeout=5)
        if server:
            server.close()


def test_control_one_reload_while_down():
    assert asyncio.run(scenario(1)) == {'10.0.0.0/24'}


def test_two_reloads_while_down():
    table = asyncio.run(scenario(2))
    assert table == {'10.0.0.0/24'}, f'the peer was sent {sorted(table)}; 10.0.1.0/24 is in neither reloaded file'
