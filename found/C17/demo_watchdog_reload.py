"""C17: routes held back by 'watchdog <name> withdraw' and the reload.

At start-up a route written with 'watchdog dog withdraw' is kept out of the Adj-RIB-Out until the API
says 'announce watchdog dog' (OutgoingRIB.add_to_rib_watchdog).  On reload the difference between the
two files is applied by OutgoingRIB.replace_reload(), which knows nothing of that flag:
 - a held-back route which is new in the file is announced at once (add_to_rib(route, True));
 - a route which was announced and is now written 'withdraw' is left with the peer.
So the same file gives the peer different routes depending on whether it was loaded or reloaded.
The watchdog table of the shared RIB is also never cleaned: a route removed from the file can be
brought back by 'withdraw watchdog' / 'announce watchdog'.
"""

import pytest

from exabgp.configuration.configuration import Configuration
from exabgp.reactor.peer import Peer
from exabgp.rib import RIB

CFG = """
neighbor 127.0.0.1 {
  router-id 1.2.3.4; local-address 127.0.0.1; local-as 65001; peer-as 65002;
  static { route 10.0.0.0/24 next-hop 1.1.1.1; %s }
}
"""
HELD = 'route 10.0.5.0/24 next-hop 1.1.1.1 watchdog dog withdraw;'
LIVE = 'route 10.0.5.0/24 next-hop 1.1.1.1 watchdog dog;'


def send(rib, table):
    """what Protocol.new_update_generator() puts on the wire, applied to the table of the remote router"""
    for update in rib.updates(True):
        for nlri in update.withdraws:
            table.discard(str(nlri))
        for routed in update.announces:
            table.add(str(routed.nlri))


def start(text):
    RIB._cache.clear()
    configuration = Configuration([text], text=True)
    assert configuration.reload() is True
    neighbor = next(iter(configuration.neighbors.values()))
    peer, table = Peer(neighbor, None), set()
    neighbor.rib.outgoing.replace_restart([], neighbor.routes)  # Peer._main() when the session comes up
    send(neighbor.rib.outgoing, table)
    return configuration, peer, table


def reload(configuration, peer, table, text, established):
    configuration._configurations[:] = [text]
    assert configuration.reload() is True
    neighbor = next(iter(configuration.neighbors.values()))
    if established:
        # Reactor.reload() -> Peer.reconfigure() on an ESTABLISHED peer, then the top of the loop of Peer._main()
        previous = neighbor.previous.routes if neighbor.previous else []
        neighbor.rib.outgoing.replace_reload(previous, neighbor.routes)
        neighbor.previous = None
        peer.neighbor = neighbor
    else:
        peer.reconfigure(neighbor)  # the peer is IDLE: the difference is applied at once
        table.clear()
        neighbor.rib.outgoing.replace_restart([], neighbor.routes)  # and the session comes up
    send(neighbor.rib.outgoing, table)
    return neighbor


@pytest.mark.parametrize('established', [True, False], ids=['session-up', 'session-down'])
@pytest.mark.parametrize('old', ['', LIVE], ids=['route-is-new', 'route-was-announced'])
def test_reloading_a_file_gives_what_loading_it_gives(old, established):
    _, _, wanted = start(CFG % HELD)
    assert wanted == {'10.0.0.0/24'}  # the held-back route is not announced at start-up

    configuration, peer, table = start(CFG % old)
    reload(configuration, peer, table, CFG % HELD, established)
    assert table == wanted


def test_route_removed_from_the_file_does_not_come_back():
    configuration, peer, table = start(CFG % HELD)
    neighbor = reload(configuration, peer, table, CFG % '', True)
    assert table == {'10.0.0.0/24'}
    neighbor.rib.outgoing.announce_watchdog('dog')  # API: announce watchdog dog (reactor/api/command/watchdog.py)
    send(neighbor.rib.outgoing, table)
    assert table == {'10.0.0.0/24'}, 'no route of the running configuration belongs to watchdog dog'
