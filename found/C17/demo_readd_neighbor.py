"""C17: a neighbor taken out of the configuration and put back by the next reload is left without a peer.

Reactor.reload() asks the Peer of a removed neighbor to stop (Peer.remove(): _restart = False) but the
Peer stays in Reactor._peers until its task has ended - for a session which is down that is when the
connection attempt in progress gives up (seconds for a refusing host, minutes for a silent one).  A reload
which brings the neighbor back in the meantime finds the key in _peers, sees an equal neighbor and calls
Peer.reconfigure() on the dying Peer, which does not revive it.  When the attempt ends the Peer is dropped:
the neighbor is configured but nothing will ever connect to it (or accept its connection) again.
"""

import asyncio
import os

from exabgp.configuration.configuration import Configuration
from exabgp.reactor.api.processes import Processes
from exabgp.reactor.interrupt import Signal
from exabgp.reactor.loop import Reactor
from exabgp.reactor.network.outgoing import Outgoing
from exabgp.rib import RIB

KEEP = """
neighbor 127.0.0.2 {
  router-id 1.2.3.4; local-address 127.0.0.1; local-as 65001; peer-as 65002; passive true;
  static { route 10.0.2.0/24 next-hop 1.1.1.1; }
}
"""
FLAPPING = """
neighbor 127.0.0.3 {
  router-id 1.2.3.4; local-address 127.0.0.1; local-as 65001; peer-as 65003;
  static { route 10.0.3.0/24 next-hop 1.1.1.1; }
}
"""


async def until(condition, seconds=10.0):
    for _ in range(int(seconds / 0.02)):
        if condition():
            return True
        await asyncio.sleep(0.02)
    return False


async def scenario(remove_and_put_back):
    attempts, answer = [], asyncio.Event()

    async def establish_async(self, timeout=30.0, max_attempts=50):
        # the I/O edge: a connection attempt to a host which does not answer, then gives up
        attempts.append(self.peer)
        await answer.wait()
        return False

    real, Outgoing.establish_async = Outgoing.establish_async, establish_async
    RIB._cache.clear()
    cwd, mask = os.getcwd(), os.umask(0o022)
    configuration = Configuration([KEEP + FLAPPING], text=True)
    reactor = Reactor(configuration)
    os.chdir(cwd)
    os.umask(mask)
    reactor.processes = Processes()
    assert reactor.reload()
    main = asyncio.ensure_future(reactor._async_main_loop())
    try:
        assert await until(lambda: attempts == ['127.0.0.3'])
        if remove_and_put_back:
            for text, count in ((KEEP, 1), (KEEP + FLAPPING, 2)):
                configuration._configurations[:] = [text]
                reactor.signal.received = Signal.RELOAD
                assert await until(lambda: reactor.signal.received == Signal.NONE and len(configuration.neighbors) == count)
                await asyncio.sleep(0.1)
        answer.set()  # the attempt which was in progress all along fails
        await until(lambda: len(attempts) >= 2, 3.0)
        configured = sorted(str(n.session.peer_address) for n in configuration.neighbors.values())
        served = sorted(str(p.neighbor.session.peer_address) for p in reactor._peers.values())
        return configured, served, len(attempts)
    finally:
        Outgoing.establish_async = real
        reactor.signal.received = Signal.SHUTDOWN
        await asyncio.wait([main], timeout=5)


def test_control_a_failed_attempt_is_followed_by_another():
    configured, served, attempts = asyncio.run(scenario(False))
    assert configured == served == ['127.0.0.2', '127.0.0.3'] and attempts >= 2


def test_neighbor_put_back_by_the_next_reload_is_served():
    configured, served, attempts = asyncio.run(scenario(True))
    assert configured == ['127.0.0.2', '127.0.0.3']  # both reloads succeeded, the second file has both neighbors
    assert served == configured, f'no peer for 127.0.0.3 any more: {served}'
    assert attempts >= 2, 'ExaBGP never tries to connect to 127.0.0.3 again'
