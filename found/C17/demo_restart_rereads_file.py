"""C17: SIGALRM ('restart') re-reads the configuration file but only applies half of it.

Reactor.restart() calls Configuration.reload() - which commits the new file: configuration.neighbors are
the new Neighbor objects and their routes are seeded in the shared Adj-RIB-Out - and then only does
Peer.reestablish() without the new Neighbor for the peers it already has.  Nothing removes the routes the
new file dropped (they stay cached and are sent again), the peers keep running the old Neighbor, and a
neighbor added to the file gets no Peer.
"""

import asyncio
import os
import struct

from exabgp.configuration.configuration import Configuration
from exabgp.reactor.api.processes import Processes
from exabgp.reactor.interrupt import Signal
from exabgp.reactor.loop import Reactor
from exabgp.rib import RIB

CFG = """
neighbor 127.0.0.1 {
  router-id 1.2.3.4; local-address 127.0.0.1; local-as 65001; peer-as 65002; hold-time 30; connect %d;
  family { ipv4 unicast; }
  static { route 10.0.0.0/24 next-hop 1.1.1.1; %s }
}
"""
ADDED = """
neighbor 127.0.0.7 {
  router-id 1.2.3.4; local-address 127.0.0.1; local-as 65001; peer-as 65007; passive true;
}
"""
MARKER = b'\xff' * 16


class Speaker:
    """the remote BGP router: answers OPEN/KEEPALIVE, keeps the table of the current session (ipv4 unicast)"""

    def __init__(self):
        self.table, self.sessions = set(), 0

    async def serve(self, reader, writer):
        self.sessions += 1
        self.table = set()
        caps = bytes([2, 6, 1, 4, 0, 1, 0, 1]) + bytes([2, 6, 65, 4]) + struct.pack('!L', 65002)
        body = bytes([4]) + struct.pack('!HH', 65002, 30) + bytes([9, 9, 9, 9, len(caps)]) + caps
        writer.write(MARKER + struct.pack('!HB', 19 + len(body), 1) + body)
        try:
            while True:
                head = await reader.readexactly(19)
                size, kind = struct.unpack('!HB', head[16:])
                data = await reader.readexactly(size - 19)
                if kind in (1, 4):
                    writer.write(MARKER + struct.pack('!HB', 19, 4))
                if kind == 2:
                    wlen = struct.unpack('!H', data[:2])[0]
                    alen = struct.unpack('!H', data[2 + wlen : 4 + wlen])[0]
                    for kill, blob in ((True, data[2 : 2 + wlen]), (False, data[4 + wlen + alen :])):
                        while blob:
                            nbytes = (blob[0] + 7) // 8
                            prefix = '.'.join(str(b) for b in blob[1 : 1 + nbytes].ljust(4, b'\0')) + '/%d' % blob[0]
                            self.table.discard(prefix) if kill else self.table.add(prefix)
                            blob = blob[1 + nbytes :]
        except (asyncio.IncompleteReadError, ConnectionError):
            pass


async def until(condition, seconds=10.0):
    for _ in range(int(seconds / 0.05)):
        if condition():
            return True
        await asyncio.sleep(0.05)
    return False


async def scenario(signal):
    speaker = Speaker()
    server = await asyncio.start_server(speaker.serve, '127.0.0.1', 0)
    port = server.sockets[0].getsockname()[1]
    RIB._cache.clear()
    cwd, mask = os.getcwd(), os.umask(0o022)
    configuration = Configuration([CFG % (port, 'route 10.0.1.0/24 next-hop 1.1.1.1;')], text=True)
    reactor = Reactor(configuration)
    os.chdir(cwd)
    os.umask(mask)
    reactor.processes = Processes()
    assert reactor.reload()
    main = asyncio.ensure_future(reactor._async_main_loop())
    try:
        assert await until(lambda: speaker.table == {'10.0.0.0/24', '10.0.1.0/24'}), speaker.table
        # 10.0.1.0/24 replaced by 10.0.2.0/24, one more neighbor
        configuration._configurations[:] = [CFG % (port, 'route 10.0.2.0/24 next-hop 1.1.1.1;') + ADDED]
        reactor.signal.received = signal
        assert await until(lambda: len(configuration.neighbors) == 2)
        if signal == Signal.RESTART:
            assert await until(lambda: speaker.sessions == 2)
        await until(lambda: speaker.table == {'10.0.0.0/24', '10.0.2.0/24'}, 3.0)
        configured = sorted(str(n.session.peer_address) for n in configuration.neighbors.values())
        served = sorted(str(p.neighbor.session.peer_address) for p in reactor._peers.values())
        return speaker.table, configured, served
    finally:
        reactor.signal.received = Signal.SHUTDOWN
        await asyncio.wait([main], timeout=5)
        server.close()


def test_control_same_file_taken_by_sigusr1():
    table, configured, served = asyncio.run(scenario(Signal.RELOAD))
    assert table == {'10.0.0.0/24', '10.0.2.0/24'} and served == configured == ['127.0.0.1', '127.0.0.7']


def test_file_taken_by_sigalrm():
    table, configured, served = asyncio.run(scenario(Signal.RESTART))
    assert configured == ['127.0.0.1', '127.0.0.7']  # the file was read and accepted
    assert table == {'10.0.0.0/24', '10.0.2.0/24'}, f'after the restart the peer holds {sorted(table)}'
    assert served == configured, f'peers: {served}'
