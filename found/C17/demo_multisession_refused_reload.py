"""C17: a refused reload changes the Adj-RIB-Out of a running multi-session neighbor.

ParseNeighbor.post() puts the settings of a neighbor aside until the whole file is accepted
(neighbor.make_rib(defer=True)) - except in its multi-session branch, which calls m_neighbor.make_rib()
and then writes m_neighbor.rib.outgoing.families directly.  Both act at once on the OutgoingRIB shared
with the running session (RIB._cache): with 'adj-rib-out false' in the file being read it is emptied, and
its family list is replaced, although the file is refused a few lines further down.
"""

from exabgp.configuration.configuration import Configuration
from exabgp.rib import RIB

CFG = """
neighbor 127.0.0.1 {
  router-id 1.2.3.4; local-address 127.0.0.1; local-as 65001; peer-as 65002;
  %s
  capability { multi-session enable; route-refresh disable; }
  family { ipv4 unicast; ipv6 unicast; }
  static { route 10.0.0.0/24 next-hop 1.1.1.1; route 2001:db8::/32 next-hop 2001:db8::1; }
}
%s
"""
FAULT = 'neighbor 127.0.0.9 { local-as 65001; peer-as 65009; xyzzy; }'


def state(configuration):
    out = {}
    for name, neighbor in configuration.neighbors.items():
        rib = neighbor.rib.outgoing
        out[name] = dict(
            neighbor=id(neighbor),
            families=sorted(str(f) for f in rib.families),
            cached=sorted(str(r.nlri) for r in rib.cached_routes(list(neighbor.families()))),
            queued=sorted(str(r.nlri) for r in rib.queued_routes()),
            pending=rib.pending(),
        )
    return out


def refused_reload_changes_nothing(first, refused):
    RIB._cache.clear()
    configuration = Configuration([first], text=True)
    assert configuration.reload() is True
    before = state(configuration)
    assert any(entry['pending'] for entry in before.values())  # the session is down, routes wait for it

    configuration._configurations[:] = [refused]
    assert configuration.reload() is False  # 'xyzzy' in the last neighbor
    assert state(configuration) == before


def test_control_without_multi_session():
    plain = CFG.replace('multi-session enable; ', '')
    refused_reload_changes_nothing(plain % ('', ''), plain % ('adj-rib-out false;', FAULT))


def test_refused_reload_leaves_the_multi_session_neighbor_alone():
    refused_reload_changes_nothing(CFG % ('', ''), CFG % ('adj-rib-out false;', FAULT))
