"""C17: a file Configuration.validate() refuses is applied all the same.

Configuration._reload() ends with
        check = self.validate()
        if check:
            return check
        return True
validate() returns True when all is well and error.set(...) - False - when it refuses the file, so the
refusal is thrown away; and it only runs after _commit_reload() has seeded the Adj-RIB-Out shared with
the running sessions.  A neighbor using a process no section defines (or 'processes' together with
'processes-match', or a 'processes-match' matching nothing) is reported in Configuration.error, yet
reload() returns True and the peers get the routes of that file.
"""

import pytest

from exabgp.configuration.configuration import Configuration
from exabgp.rib import RIB

CFG = """
process announcer { run /bin/cat; encoder json; }
neighbor 127.0.0.1 {
  router-id 1.2.3.4; local-address 127.0.0.1; local-as 65001; peer-as 65002;
  api { %s neighbor-changes; }
  static { route 10.0.0.0/24 next-hop 1.1.1.1; %s }
}
"""
GOOD = CFG % ('processes [ announcer ];', '')

BROKEN = {
    'process-not-defined': CFG % ('processes [ nosuch ];', 'route 10.0.1.0/24 next-hop 1.1.1.1;'),
    'processes-and-match': CFG % ('processes [ announcer ]; processes-match [ "ann.*" ];', 'route 10.0.1.0/24 next-hop 1.1.1.1;'),
    'match-matches-nothing': CFG % ('processes-match [ "^nothing$" ];', 'route 10.0.1.0/24 next-hop 1.1.1.1;'),
}


def state(configuration):
    out = {}
    for name, neighbor in configuration.neighbors.items():
        rib = neighbor.rib.outgoing
        out[name] = (
            id(neighbor),
            sorted(str(r.nlri) for r in neighbor.routes),
            sorted(str(r.nlri) for r in rib.cached_routes()),
            sorted(str(r.nlri) for r in rib.queued_routes()),
            sorted(neighbor.api['processes']),
        )
    return out, sorted(configuration.processes)


@pytest.mark.parametrize('fault', sorted(BROKEN))
def test_a_file_refused_by_validate_is_not_applied(fault):
    RIB._cache.clear()
    configuration = Configuration([GOOD], text=True)
    assert configuration.reload() is True
    neighbor = next(iter(configuration.neighbors.values()))
    for _ in neighbor.rib.outgoing.updates(True):  # the session is up and has sent everything
        pass
    before = state(configuration)

    configuration._configurations[:] = [BROKEN[fault]]
    accepted = configuration.reload()
    complaint = str(configuration.error)

    # ExaBGP itself says the file is wrong ...
    assert complaint, 'validate() was expected to complain about this file'
    # ... so the reload must be refused, and nothing may have changed (10.0.1.0/24 is not announced)
    assert accepted is not True, f'reload() returned True although it reports: {complaint.strip()}'
    assert state(configuration) == before
