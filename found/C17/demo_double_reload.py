"""C17: two reloads served back to back (a second SIGUSR1 landing while the first file is parsed).

The first reload leaves its difference in Peer._neighbor for the peer task to apply; the second one
overwrites Peer._neighbor before the task ran, and only carries the difference between file 1 and
file 2.  The route removed by the first reload is never withdrawn: the peer keeps it for ever.
"""

import asyncio
import os
import struct

from exabgp.configuration.configuration import Configuration
from exabgp.reactor.api.processes import Processes
from exabgp.reactor.interrupt import Signal
from exabgp.reactor.loop import Reactor
from exabgp.rib import RIB

CFG = """
neighbor 127.0.0.1 {
  router-id 1.2.3.4; local-address 127.0.0.1; local-as 65001; peer-as 65002; hold-time 30; connect %d;
  family { ipv4 unicast; }
  static { %s }
}
"""
A = 'route 10.0.0.0/24 next-hop 1.1.1.1;'
B = 'route 10.0.1.0/24 next-hop 1.1.1.1;'
MARKER = b'\xff' * 16


class Speaker:
    """the remote BGP router: answers OPEN/KEEPALIVE and keeps the table of what it was sent (ipv4 unicast)"""

    def __init__(self):
        self.table = set()
        self.sessions = 0

    async def serve(self, reader, writer):
        self.sessions += 1
        self.table = set()
        caps = bytes([2, 6, 1, 4, 0, 1, 0, 1]) + bytes([2, 6, 65, 4]) + struct.pack('!L', 65002)
        body = bytes([4]) + struct.pack('!HH', 65002, 30) + bytes([9, 9, 9, 9, len(caps)]) + caps
        writer.write(MARKER + struct.pack('!HB', 19 + len(body), 1) + body)
        try:
            while True:
                head = await reader.readexactly(19)
                size, kind = struct.unpack('!HB', head[16:])
                data = await reader.readexactly(size - 19)
                if kind == 1:
                    writer.write(MARKER + struct.pack('!HB', 19, 4))
                if kind == 4:
                    writer.write(MARKER + struct.pack('!HB', 19, 4))
                if kind == 2:
                    wlen = struct.unpack('!H', data[:2])[0]
                    alen = struct.unpack('!H', data[2 + wlen : 4 + wlen])[0]
                    for kill, blob in ((True, data[2 : 2 + wlen]), (False, data[4 + wlen + alen :])):
                        while blob:
                            nbytes = (blob[0] + 7) // 8
                            prefix = (blob[0], blob[1 : 1 + nbytes])
                            self.table.discard(prefix) if kill else self.table.add(prefix)
                            blob = blob[1 + nbytes :]
        except (asyncio.IncompleteReadError, ConnectionError):
            pass


def prefix(text):
    ip, mask = text.split('/')
    return (int(mask), bytes(int(x) for x in ip.split('.'))[: (int(mask) + 7) // 8])


async def until(condition, seconds=10.0):
    for _ in range(int(seconds / 0.05)):
        if condition():
            return True
        await asyncio.sleep(0.05)
    return False


async def scenario(twice):
    speaker = Speaker()
    server = await asyncio.start_server(speaker.serve, '127.0.0.1', 0)
    port = server.sockets[0].getsockname()[1]

    RIB._cache.clear()
    cwd, mask = os.getcwd(), os.umask(0o022)
    configuration = Configuration([CFG % (port, A + B)], text=True)
    reactor = Reactor(configuration)
    os.chdir(cwd)
    os.umask(mask)
    reactor.processes = Processes()
    assert reactor.reload()
    main = asyncio.ensure_future(reactor._async_main_loop())
    try:
        assert await until(lambda: speaker.table == {prefix('10.0.0.0/24'), prefix('10.0.1.0/24')}), speaker.table

        # the operator removes 10.0.1.0/24 and sends SIGUSR1; a second SIGUSR1 arrives while the file is parsed
        configuration._configurations[:] = [CFG % (port, A)]
        parse, calls = configuration.reload, []

        def reload_and_signal():
            calls.append(1)
            if twice and len(calls) == 1:
                reactor.signal.received = Signal.RELOAD  # what Signal.sigusr1() does once the first one is rearmed
            return parse()

        configuration.reload = reload_and_signal
        reactor.signal.received = Signal.RELOAD
        assert await until(lambda: len(calls) == (2 if twice else 1))
        await until(lambda: speaker.table == {prefix('10.0.0.0/24')}, 3.0)
        return speaker.table, speaker.sessions
    finally:
        reactor.signal.received = Signal.SHUTDOWN
        await asyncio.wait([main], timeout=5)
        server.close()


def test_control_one_reload_withdraws_the_removed_route():
    table, sessions = asyncio.run(scenario(False))
    assert (table, sessions) == ({prefix('10.0.0.0/24')}, 1)


def test_route_removed_by_the_first_of_two_reloads_is_withdrawn():
    table, sessions = asyncio.run(scenario(True))
    assert sessions == 1
    # both reloads succeeded and both files only hold 10.0.0.0/24
    assert table == {prefix('10.0.0.0/24')}, f'the peer still holds {sorted(table)}'
