"""C16: `fragment 256` is sent as a two octet bitmask and `fragment 0x10` with a reserved bit set.

RFC 8955 section 4.2.2.12: the fragment component (type 12) carries a one octet bitmask (the len
field of its operator is 0) whose four high bits "MUST be set to 0 on NLRI encoding".  The text
parser takes any number up to 65535, so the rule is either refused or encoded within those limits.
"""

import pytest

from exabgp.reactor.api import API


def _api(line: str):
    # the real API entry point of `announce ipv4 ...` (it only needs its Configuration)
    api = API(None)  # type: ignore[arg-type]
    return api.api_announce_v4(f'announce ipv4 {line}')


def _fragment_operators(wire: bytes) -> list[tuple[int, bytes]]:
    """A reference reading of an NLRI which holds a single fragment component."""
    assert wire[0] == len(wire) - 1 and wire[1] == 0x0C
    data, out = wire[2:], []
    while data:
        op, data = data[0], data[1:]
        width = 1 << ((op & 0x30) >> 4)
        out.append((op, data[:width]))
        data = data[width:]
    return out


@pytest.mark.parametrize('text', ['256', '0x100', '0x10', '0x80', 'is-fragment+0x40', '[ dont-fragment 4096 ]'])
def test_fragment_outside_the_four_defined_bits(text: str) -> None:
    routes = _api(f'flow fragment {text} discard')
    if not routes:
        return  # refused: fine
    wire = bytes(routes[0].nlri.pack_nlri(None))
    for op, value in _fragment_operators(wire):
        assert op & 0x30 == 0, f'fragment {text}: operator {op:#04x} announces a {len(value)} octet bitmask in {wire.hex()}'
        assert value[0] & 0xF0 == 0, f'fragment {text}: reserved bits set in {wire.hex()}'


@pytest.mark.parametrize(
    'text,expected',
    [
        ('dont-fragment', '030c8001'),
        ('[ is-fragment&!first-fragment =last-fragment ]', '070c00024204810 8'.replace(' ', '')),
        ('0x0f', '030c800f'),
        ('is-fragment+last-fragment', '030c800a'),
    ],
)
def test_defined_fragment_bits_are_still_accepted(text: str, expected: str) -> None:
    routes = _api(f'flow fragment {text} discard')
    assert routes
    assert bytes(routes[0].nlri.pack_nlri(None)).hex() == expected
