"""C16: `announce ipv4 flow-vpn ...` without `rd` sends a flow-vpn NLRI which has no route distinguisher.

RFC 8955 section 8: the flow-vpn NLRI is <length, RD (8 octets), components>.  Without the RD the
receiver takes the first eight octets of the components for it, and what is left - here nothing -
for the rule: `destination 10.0.0.0/24 protocol tcp` becomes a rule with no component at all,
which matches every packet (and ExaBGP itself prints it as `rd 0x01180A0000038106`).
"""

from exabgp.bgp.message.action import Action
from exabgp.bgp.message.update.nlri.flow import Flow
from exabgp.bgp.message.update.nlri.nlri import NLRI
from exabgp.bgp.message.update.nlri.qualifier import RouteDistinguisher
from exabgp.reactor.api import API
from exabgp.protocol.family import SAFI


def _api(section: str, line: str, action: str = 'announce'):
    # the real API entry point of `announce ipv4 ...` / `withdraw ipv6 ...` (it only needs its Configuration)
    api = API(None)  # type: ignore[arg-type]
    parse = api.api_announce_v4 if section == 'ipv4' else api.api_announce_v6
    return parse(f'{action} {section} {line}')


def _check(section: str, line: str, action: str = 'announce') -> None:
    routes = _api(section, line, action)
    if not routes:
        return  # refused: fine, a VPN rule needs its RD
    nlri = routes[0].nlri
    assert nlri.safi == SAFI.flow_vpn
    wire = bytes(nlri.pack_nlri(None))
    assert nlri.rd is not RouteDistinguisher.NORD, f'flow-vpn NLRI {wire.hex()} announced without route distinguisher'
    back, _ = Flow.unpack_nlri(nlri.afi, nlri.safi, wire, Action.ANNOUNCE, None, None)
    assert back is not NLRI.INVALID
    assert back.rules.keys() == nlri.rules.keys(), f'sent {nlri}, the peer reads {back}'


def test_ipv4_flow_vpn_without_rd() -> None:
    _check('ipv4', 'flow-vpn destination 10.0.0.0/24 protocol tcp discard')


def test_ipv6_flow_vpn_without_rd() -> None:
    _check('ipv6', 'flow-vpn destination 2001:db8::/32 next-header tcp discard')


def test_withdraw_ipv4_flow_vpn_without_rd() -> None:
    _check('ipv4', 'flow-vpn destination 10.0.0.0/24 protocol tcp', 'withdraw')


def test_flow_vpn_with_rd_is_still_accepted() -> None:
    routes = _api('ipv4', 'flow-vpn destination 10.0.0.0/24 protocol tcp rd 65000:1 discard', 'announce')
    assert routes
    wire = bytes(routes[0].nlri.pack_nlri(None))
    assert wire[1:9] == bytes.fromhex('0000fde800000001')
    assert wire[9] == 0x01
