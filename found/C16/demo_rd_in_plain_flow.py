"""C16: `announce ipv4 flow ... rd X` puts a route distinguisher inside a SAFI 133 (plain flow) NLRI.

RFC 8955 section 8: only the flow-vpn SAFI (134) starts with an RD.  The configuration-file form
(`flow { route { rd ...; } }`) turns the route into a flow-vpn one; the one-line API form
(`announce ipv4 flow ... rd ...`, parsed by Configuration.partial('ipv4', ...)) does not, and the
RD bytes are sent as if they were flow components (component type 0).
"""

from exabgp.bgp.message.action import Action
from exabgp.bgp.message.update.nlri.flow import Flow
from exabgp.bgp.message.update.nlri.nlri import NLRI
from exabgp.reactor.api import API
from exabgp.protocol.family import SAFI

RD = bytes.fromhex('0000fde800000001')  # 65000:1


def _api(section: str, line: str, action: str = 'announce'):
    # the real API entry point of `announce ipv4 ...` / `withdraw ipv6 ...` (it only needs its Configuration)
    api = API(None)  # type: ignore[arg-type]
    parse = api.api_announce_v4 if section == 'ipv4' else api.api_announce_v6
    return parse(f'{action} {section} {line}')


def _check(section: str, line: str) -> None:
    routes = _api(section, line)
    if not routes:
        return  # refusing the command is an acceptable outcome
    nlri = routes[0].nlri
    wire = bytes(nlri.pack_nlri(None))
    body = wire[1:]
    if nlri.safi == SAFI.flow_vpn:
        assert body[:8] == RD, 'flow-vpn NLRI must start with its RD'
        assert body[8] == 0x01
    else:
        assert nlri.safi == SAFI.flow_ip
        assert body[0] == 0x01, f'SAFI 133 NLRI starts with {body[:8].hex()} (an RD) and not with component 1: {wire.hex()}'
    # what we send must read back, in the family it is sent in, as the same rule
    back, _ = Flow.unpack_nlri(nlri.afi, nlri.safi, wire, Action.ANNOUNCE, None, None)
    assert back is not NLRI.INVALID, f'{nlri.afi} {nlri.safi} NLRI {wire.hex()} is malformed for its own family'
    assert str(back) == str(nlri)


def test_rd_in_one_line_ipv4_flow() -> None:
    _check('ipv4', 'flow destination 10.0.0.0/24 protocol tcp rd 65000:1 discard')


def test_rd_in_one_line_ipv6_flow() -> None:
    _check('ipv6', 'flow destination 2001:db8::/32 next-header tcp rd 65000:1 discard')
