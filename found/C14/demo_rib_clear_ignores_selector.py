"""C14: 'rib clear out <neighbor>' / 'clear adj-rib out neighbor <ip>' / 'rib flush out <ip>' ignore the neighbor
they name (and any other argument): every neighbor of the helper is cleared, and the command is answered 'done'.

Run: PYTHONPATH=/tmp/hunt-C14/src /venv/bin/python -m pytest demo_rib_clear_ignores_selector.py
Real Configuration / Reactor / API / Processes / ASYNC; only the helper's two pipes are faked.
"""

import asyncio
import fcntl
import os

from exabgp.configuration.configuration import Configuration
from exabgp.environment import getenv
from exabgp.reactor.api.processes import Processes
from exabgp.reactor.loop import Reactor
from exabgp.rib import RIB

CFG = """
process api { run /bin/cat; encoder json; }
neighbor 127.0.0.2 { router-id 1.2.3.4; local-address 127.0.0.1; local-as 65001; peer-as 65002;
  api { processes [ api ]; } family { ipv4 unicast; } }
neighbor 127.0.0.3 { router-id 1.2.3.4; local-address 127.0.0.1; local-as 65001; peer-as 65003;
  api { processes [ api ]; } family { ipv4 unicast; } }
"""


class _File:
    def __init__(self, fd):
        self.fd = fd

    def fileno(self):
        return self.fd


class FakeHelper:
    """what subprocess.Popen gives Processes: two pipe ends and poll()"""

    def __init__(self):
        self.cmd_r, self.cmd_w = os.pipe()  # helper stdout -> ExaBGP
        self.rep_r, self.rep_w = os.pipe()  # ExaBGP -> helper stdin
        for fd in (self.cmd_r, self.rep_r, self.rep_w):
            fcntl.fcntl(fd, fcntl.F_SETFL, os.O_NONBLOCK)
        self.stdout, self.stdin = _File(self.cmd_r), _File(self.rep_w)

    def poll(self):
        return None

    def terminate(self):
        pass

    def wait(self, timeout=None):
        return 0


def world(version=6):
    cwd, mask = os.getcwd(), os.umask(0)
    RIB._cache.clear()
    getenv().api.version = version
    reactor = Reactor(Configuration([CFG], text=True))
    os.chdir(cwd)
    os.umask(mask)
    reactor.processes = Processes()
    reactor.asynchronous.set_error_handler(reactor.processes.answer_error_sync)
    assert reactor.reload()
    helper = FakeHelper()
    p = reactor.processes
    p._process['api'], p._encoder['api'], p._ackjson['api'], p._ack['api'] = helper, None, False, True
    p._restart['api'], p._configuration['api'] = False, {'run': ['x'], 'respawn': False}
    p._async_mode = True
    return reactor, helper


async def main_loop(reactor, rounds):
    """the API part of Reactor._async_main_loop"""
    for _ in range(rounds):
        for service, command in reactor.processes.received_async():
            reactor.api.process(reactor, service, command)
        if reactor.asynchronous._async:
            await reactor.asynchronous._run_async()
        await reactor.processes.flush_write_queue()
        await asyncio.sleep(0)


def converse(reactor, helper, lines):
    os.write(helper.cmd_w, ('\n'.join(lines) + '\n').encode())
    reactor.processes._async_reader_callback('api')
    asyncio.run(main_loop(reactor, 3 * len(lines) + 10))
    try:
        return os.read(helper.rep_r, 1 << 20).decode().split('\n')[:-1]
    except BlockingIOError:
        return []


import pytest


def ribs(reactor):
    return {
        name.split()[1]: sorted(str(route.nlri) for route in n.rib.outgoing.cached_routes(list(n.families())))
        for name, n in reactor.configuration.neighbors.items()
    }


CASES = [
    (6, 'peer * announce route 10.0.0.0/24 next-hop 1.1.1.1', 'rib clear out 127.0.0.2'),
    (6, 'peer * announce route 10.0.0.0/24 next-hop 1.1.1.1', 'rib clear out neighbor 127.0.0.2'),
    (4, 'announce route 10.0.0.0/24 next-hop 1.1.1.1', 'clear adj-rib out neighbor 127.0.0.2'),  # the documented form
    (4, 'announce route 10.0.0.0/24 next-hop 1.1.1.1', 'clear adj-rib out 127.0.0.9'),  # nobody has this address
    (6, 'peer * announce route 10.0.0.0/24 next-hop 1.1.1.1', 'rib clear sideways'),  # not a direction at all
]


@pytest.mark.parametrize('version,announce,clear', CASES)
def test_clear_changes_only_the_neighbor_it_names(version, announce, clear):
    reactor, helper = world(version)
    assert converse(reactor, helper, [announce]) == ['done']
    before = ribs(reactor)
    assert before == {'127.0.0.2': ['10.0.0.0/24'], '127.0.0.3': ['10.0.0.0/24']}

    reply = converse(reactor, helper, [clear])
    after = ribs(reactor)
    assert [r for r in reply if r in ('done', 'error')] in (['done'], ['error'])
    if reply[-1] == 'error':
        assert after == before, f'{clear!r} was refused but changed {after}'
    else:
        # accepted: only what the command names may change - never 127.0.0.3
        assert after['127.0.0.3'] == before['127.0.0.3'], f'{clear!r} emptied the Adj-RIB-Out of 127.0.0.3: {after}'
