"""C14: in sync mode ('... sync' or 'session sync enable') a command which leaves nothing to send - the second
announcement of an identical route - is never answered, and no later command of any helper is executed: the
command coroutine waits, inside the scheduler, inside the main loop, for a flush that an idle RIB never does.

Run: PYTHONPATH=/tmp/hunt-C14/src /venv/bin/python -m pytest demo_sync_noop_hang.py
Real Configuration / Reactor / API / Processes / ASYNC / Peer / Protocol / RIB; the helper's pipes and the BGP
connection (writer_async) are faked.  Each neighbor's sending loop is the real Peer._send_route_updates.
"""

import asyncio
import fcntl
import os

from exabgp.configuration.configuration import Configuration
from exabgp.environment import getenv
from exabgp.reactor.api.processes import Processes
from exabgp.reactor.loop import Reactor
from exabgp.rib import RIB

CFG = """
process api { run /bin/cat; encoder json; }
neighbor 127.0.0.2 { router-id 1.2.3.4; local-address 127.0.0.1; local-as 65001; peer-as 65002;
  api { processes [ api ]; } family { ipv4 unicast; } }
neighbor 127.0.0.3 { router-id 1.2.3.4; local-address 127.0.0.1; local-as 65001; peer-as 65003;
  api { processes [ api ]; } family { ipv4 unicast; } }
"""


class _File:
    def __init__(self, fd):
        self.fd = fd

    def fileno(self):
        return self.fd


class FakeHelper:
    """what subprocess.Popen gives Processes: two pipe ends and poll()"""

    def __init__(self):
        self.cmd_r, self.cmd_w = os.pipe()  # helper stdout -> ExaBGP
        self.rep_r, self.rep_w = os.pipe()  # ExaBGP -> helper stdin
        for fd in (self.cmd_r, self.rep_r, self.rep_w):
            fcntl.fcntl(fd, fcntl.F_SETFL, os.O_NONBLOCK)
        self.stdout, self.stdin = _File(self.cmd_r), _File(self.rep_w)

    def poll(self):
        return None

    def terminate(self):
        pass

    def wait(self, timeout=None):
        return 0


def world(version=6):
    cwd, mask = os.getcwd(), os.umask(0)
    RIB._cache.clear()
    getenv().api.version = version
    reactor = Reactor(Configuration([CFG], text=True))
    os.chdir(cwd)
    os.umask(mask)
    reactor.processes = Processes()
    reactor.asynchronous.set_error_handler(reactor.processes.answer_error_sync)
    assert reactor.reload()
    helper = FakeHelper()
    p = reactor.processes
    p._process['api'], p._encoder['api'], p._ackjson['api'], p._ack['api'] = helper, None, False, True
    p._restart['api'], p._configuration['api'] = False, {'run': ['x'], 'respawn': False}
    p._async_mode = True
    return reactor, helper


async def main_loop(reactor, rounds):
    """the API part of Reactor._async_main_loop"""
    for _ in range(rounds):
        for service, command in reactor.processes.received_async():
            reactor.api.process(reactor, service, command)
        if reactor.asynchronous._async:
            await reactor.asynchronous._run_async()
        await reactor.processes.flush_write_queue()
        await asyncio.sleep(0)


def converse(reactor, helper, lines):
    os.write(helper.cmd_w, ('\n'.join(lines) + '\n').encode())
    reactor.processes._async_reader_callback('api')
    asyncio.run(main_loop(reactor, 3 * len(lines) + 10))
    try:
        return os.read(helper.rep_r, 1 << 20).decode().split('\n')[:-1]
    except BlockingIOError:
        return []


from exabgp.bgp.fsm import FSM
from exabgp.reactor.protocol import Protocol


class FakeConnection:
    def __init__(self):
        self.sent = []

    async def writer_async(self, raw):
        self.sent.append(raw)

    def fd(self):
        return 99

    def session(self):
        return 'fake'

    def name(self):
        return 'fake'


async def sending_loop(peer):
    """what Peer._main does with the Adj-RIB-Out while the session is established"""
    new_routes, include_withdraw = None, True
    while True:
        new_routes, include_withdraw = await peer._send_route_updates(new_routes, include_withdraw, 25)
        await asyncio.sleep(0)


async def scenario(lines):
    reactor, helper = world()
    tasks = []
    for peer in reactor._peers.values():
        peer.proto = Protocol(peer)
        peer.proto.connection = FakeConnection()
        sent_open = await peer.proto.new_open()
        peer.proto.negotiated.sent(sent_open)
        peer.proto.negotiated.received(sent_open)
        peer.fsm.change(FSM.ESTABLISHED)
        tasks.append(asyncio.ensure_future(sending_loop(peer)))
    os.write(helper.cmd_w, ('\n'.join(lines) + '\n').encode())
    reactor.processes._async_reader_callback('api')
    hung = False
    try:
        await asyncio.wait_for(main_loop(reactor, 500), 3)
    except asyncio.TimeoutError:
        hung = True
    for task in tasks:
        task.cancel()
    try:
        replies = os.read(helper.rep_r, 1 << 20).decode().split('\n')[:-1]
    except BlockingIOError:
        replies = []
    return hung, [r for r in replies if r in ('done', 'error')]


ANNOUNCE = 'peer * announce route 10.0.0.0/24 next-hop 1.1.1.1'


def test_sync_announce_is_answered_once():
    # sanity: the harness does flush - a first sync announcement is answered after the UPDATE went out
    hung, terminal = asyncio.run(scenario([ANNOUNCE + ' sync', 'session ping']))
    assert (hung, terminal) == (False, ['done', 'done'])


def test_repeating_an_announcement_in_sync_mode_does_not_stop_the_api():
    hung, terminal = asyncio.run(scenario([ANNOUNCE, ANNOUNCE + ' sync', 'session ping']))
    assert not hung, f'the main loop never came back from the scheduler; terminal replies so far: {terminal}'
    assert terminal == ['done', 'done', 'done']


def test_the_same_with_session_sync_enable():
    hung, terminal = asyncio.run(scenario(['session sync enable', ANNOUNCE, ANNOUNCE, 'session ping']))
    assert not hung, f'the main loop never came back from the scheduler; terminal replies so far: {terminal}'
    assert terminal == ['done', 'done', 'done', 'done']
