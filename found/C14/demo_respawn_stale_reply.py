"""C14: the reply to the last command of a helper which has exited is written to the helper started in its place.

A helper that writes its commands and exits (the classic one-shot 'run' script) is read after it has gone: the
reader queues its command, then (same callback) notices the exit and respawns the program under the same name.  The
queued command is executed afterwards and its 'done' goes to whoever now owns the name: a process which has not
written anything receives a terminal reply, and from then on every reply it reads is the one of the command before
(here it reads 'done' for a command ExaBGP refused).  Processes._write_queue is not emptied by _terminate either.

Run: PYTHONPATH=/tmp/hunt-C14/src /venv/bin/python -m pytest demo_respawn_stale_reply.py
Real Configuration / Reactor / API / Processes (real fork, real pipes, real asyncio readers) / ASYNC.
"""

import asyncio
import os
import stat
import sys
import time

from exabgp.configuration.configuration import Configuration
from exabgp.environment import getenv
from exabgp.reactor.api.processes import Processes
from exabgp.reactor.loop import Reactor
from exabgp.rib import RIB

HELPER = """#!%s
import os, sys, time
here = os.path.dirname(os.path.abspath(__file__))
if not os.path.exists(os.path.join(here, 'second')):
    open(os.path.join(here, 'second'), 'w').close()
    sys.stdout.write('peer * announce route 10.0.0.0/24 next-hop 1.1.1.1\\n')   # first life: one command, and out
    sys.stdout.flush()
    sys.exit(0)
log = open(os.path.join(here, 'received'), 'a')                                  # second life
time.sleep(0.3)
sys.stdout.write('frobnicate\\n')                                                # a command ExaBGP refuses
sys.stdout.flush()
while True:
    line = sys.stdin.readline()
    if not line:
        break
    log.write(line)
    log.flush()
"""

CFG = """
process api { run %s; encoder json; }
neighbor 127.0.0.2 { router-id 1.2.3.4; local-address 127.0.0.1; local-as 65001; peer-as 65002;
  api { processes [ api ]; } family { ipv4 unicast; } }
"""


async def daemon(reactor, seconds):
    loop = asyncio.get_running_loop()
    reactor.processes.start(reactor.configuration.processes)
    first = reactor.processes._process['api']
    while first.poll() is None:  # what Reactor.run_async does between start() and setup_async_readers() takes time
        await asyncio.sleep(0.01)
    reactor.processes.setup_async_readers(loop)
    executed = []
    end = time.time() + seconds
    while time.time() < end:  # the API part of Reactor._async_main_loop
        for service, command in reactor.processes.received_async():
            executed.append(command)
            reactor.api.process(reactor, service, command)
        if reactor.asynchronous._async:
            await reactor.asynchronous._run_async()
        await reactor.processes.flush_write_queue()
        await asyncio.sleep(0.01)
    reactor.processes.terminate()
    return executed


def test_a_new_helper_only_reads_replies_to_its_own_commands(tmp_path):
    script = tmp_path / 'helper.py'
    script.write_text(HELPER % sys.executable)
    script.chmod(script.stat().st_mode | stat.S_IXUSR)

    cwd, mask = os.getcwd(), os.umask(0)
    RIB._cache.clear()
    getenv().api.version = 6
    reactor = Reactor(Configuration([CFG % script], text=True))
    os.chdir(cwd)
    os.umask(mask)
    reactor.processes = Processes()
    reactor.asynchronous.set_error_handler(reactor.processes.answer_error_sync)
    assert reactor.reload()

    executed = asyncio.run(daemon(reactor, 2.0))
    assert executed == ['peer * announce route 10.0.0.0/24 next-hop 1.1.1.1', 'frobnicate'], executed

    received = (tmp_path / 'received').read_text().split('\n')[:-1]
    terminal = [line for line in received if line in ('done', 'error')]
    # the second process wrote one command, which is refused: it must read exactly one terminal reply, 'error'
    assert terminal == ['error'], f'the respawned helper wrote one (refused) command and read {terminal}'
