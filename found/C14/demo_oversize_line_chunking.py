"""C14: whether a line a little longer than Processes.MAX_COMMAND_SIZE is taken as a command or gets the helper
killed depends on where the reads happen to cut it: the cap is only applied to what is buffered while no newline
has been seen, so a line of MAX+100 bytes whose tail arrives together with its newline passes, and the same line
whose last 50 bytes arrive one read later does not.

Run: PYTHONPATH=/tmp/hunt-C14/src /venv/bin/python -m pytest demo_oversize_line_chunking.py
Real Configuration / Reactor / API / Processes / ASYNC; only the helper's two pipes are faked (real pipes, real
os.read of 16384 bytes in Processes._async_reader_callback).
"""

import asyncio
import fcntl
import os

from exabgp.configuration.configuration import Configuration
from exabgp.environment import getenv
from exabgp.reactor.api.processes import Processes
from exabgp.reactor.loop import Reactor
from exabgp.rib import RIB

CFG = """
process api { run /bin/cat; encoder json; }
neighbor 127.0.0.2 { router-id 1.2.3.4; local-address 127.0.0.1; local-as 65001; peer-as 65002;
  api { processes [ api ]; } family { ipv4 unicast; } }
neighbor 127.0.0.3 { router-id 1.2.3.4; local-address 127.0.0.1; local-as 65001; peer-as 65003;
  api { processes [ api ]; } family { ipv4 unicast; } }
"""


class _File:
    def __init__(self, fd):
        self.fd = fd

    def fileno(self):
        return self.fd


class FakeHelper:
    """what subprocess.Popen gives Processes: two pipe ends and poll()"""

    def __init__(self):
        self.cmd_r, self.cmd_w = os.pipe()  # helper stdout -> ExaBGP
        self.rep_r, self.rep_w = os.pipe()  # ExaBGP -> helper stdin
        for fd in (self.cmd_r, self.rep_r, self.rep_w):
            fcntl.fcntl(fd, fcntl.F_SETFL, os.O_NONBLOCK)
        self.stdout, self.stdin = _File(self.cmd_r), _File(self.rep_w)

    def poll(self):
        return None

    def terminate(self):
        pass

    def wait(self, timeout=None):
        return 0


def world(version=6):
    cwd, mask = os.getcwd(), os.umask(0)
    RIB._cache.clear()
    getenv().api.version = version
    reactor = Reactor(Configuration([CFG], text=True))
    os.chdir(cwd)
    os.umask(mask)
    reactor.processes = Processes()
    reactor.asynchronous.set_error_handler(reactor.processes.answer_error_sync)
    assert reactor.reload()
    helper = FakeHelper()
    p = reactor.processes
    p._process['api'], p._encoder['api'], p._ackjson['api'], p._ack['api'] = helper, None, False, True
    p._restart['api'], p._configuration['api'] = False, {'run': ['x'], 'respawn': False}
    p._async_mode = True
    return reactor, helper


async def main_loop(reactor, rounds):
    """the API part of Reactor._async_main_loop"""
    for _ in range(rounds):
        for service, command in reactor.processes.received_async():
            reactor.api.process(reactor, service, command)
        if reactor.asynchronous._async:
            await reactor.asynchronous._run_async()
        await reactor.processes.flush_write_queue()
        await asyncio.sleep(0)


def converse(reactor, helper, lines):
    os.write(helper.cmd_w, ('\n'.join(lines) + '\n').encode())
    reactor.processes._async_reader_callback('api')
    asyncio.run(main_loop(reactor, 3 * len(lines) + 10))
    try:
        return os.read(helper.rep_r, 1 << 20).decode().split('\n')[:-1]
    except BlockingIOError:
        return []


MAX = Processes.MAX_COMMAND_SIZE
STREAM = b'#' + b'x' * (MAX + 99) + b'\n' + b'session ping\n'  # a comment of MAX+100 bytes, then a command


def deliver(cuts):
    """write STREAM, pausing at each cut; ExaBGP reads (16384 bytes at a time) as the bytes arrive"""
    reactor, helper = world()
    position = 0
    for cut in cuts + [len(STREAM)]:
        data, position = STREAM[position:cut], cut
        while data:
            written = os.write(helper.cmd_w, data[:16384])
            data = data[written:]
            if 'api' in reactor.processes._process:
                reactor.processes._async_reader_callback('api')
    asyncio.run(main_loop(reactor, 10))
    try:
        replies = os.read(helper.rep_r, 1 << 20).decode().split('\n')[:-1]
    except BlockingIOError:
        replies = []
    return [r for r in replies if r in ('done', 'error')], 'api' in reactor.processes._process


def test_same_bytes_same_outcome_however_they_are_cut():
    at_once = deliver([])  # the 65th read of 16384 brings the last 100 bytes and the newline together
    in_two = deliver([MAX + 50])  # the helper's write was cut 50 bytes before the end of the line
    assert at_once == in_two, f'(terminal replies, helper alive): written at once {at_once}, in two writes {in_two}'
