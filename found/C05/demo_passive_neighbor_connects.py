"""C05: a session only takes RFC 4271 transitions - a passive session waits in Active, it never goes to Connect.

A neighbor configured with `passive true;` is left alone by the reactor until a connection comes in (its task
is not started).  Once its first session has ended the task is still there, and Peer._establish() only looks
at the global exabgp.bgp.passive: the passive neighbor goes Idle -> Connect and opens a TCP connection itself.

Real Peer / Protocol / Incoming / configuration parser over real loopback TCP; only reactor.processes is a stub.
"""

import asyncio
import os
import socket
from types import SimpleNamespace

from exabgp.bgp.fsm import FSM
from exabgp.configuration.configuration import Configuration
from exabgp.protocol.family import AFI
from exabgp.reactor.network.incoming import Incoming
from exabgp.reactor.peer import Peer

CONFIG = """
neighbor 127.0.0.1 {
    router-id 10.0.0.1;
    local-address 127.0.0.1;
    local-as 65001;
    peer-as 65001;
    passive true;
}
"""


class Stub:
    def broken(self, neighbor):
        return False

    def __getattr__(self, name):
        return lambda *args, **kwargs: None


async def _scenario():
    loop = asyncio.get_running_loop()
    # where the remote speaker listens: an outgoing connection of ExaBGP would land here
    remote_listen = socket.socket(socket.AF_INET, socket.SOCK_STREAM)
    remote_listen.bind(('127.0.0.1', 0))
    remote_listen.listen(4)
    remote_listen.setblocking(False)
    os.environ['exabgp.tcp.port'] = str(remote_listen.getsockname()[1])

    # where ExaBGP listens: the remote speaker connects, the accepted socket is what Listener hands over
    ours = socket.socket(socket.AF_INET, socket.SOCK_STREAM)
    ours.bind(('127.0.0.1', 0))
    ours.listen(1)
    remote = socket.create_connection(ours.getsockname())
    accepted, _ = ours.accept()

    configuration = Configuration([CONFIG], text=True)
    assert configuration.reload(), configuration.error
    neighbor = list(configuration.neighbors.values())[0]
    assert neighbor.session.passive
    peer = Peer(neighbor, SimpleNamespace(processes=Stub()))

    assert peer.handle_connection(Incoming(AFI.ipv4, '127.0.0.1', '127.0.0.1', accepted)) is None
    task = asyncio.ensure_future(peer.run())
    states = []
    try:
        await asyncio.sleep(0.2)
        remote.close()  # the remote end goes away: the first session is over

        connected = None
        for _ in range(150):
            states.append(peer.fsm.state)
            try:
                connected, _ = remote_listen.accept()
                break
            except BlockingIOError:
                await asyncio.sleep(0.02)
    finally:
        task.cancel()
        await asyncio.gather(task, return_exceptions=True)
        for sock in (remote, ours, remote_listen, connected):
            if sock is not None:
                sock.close()
    return connected, states


def test_a_passive_neighbor_never_opens_the_connection_itself():
    saved_port = os.environ.get('exabgp.tcp.port')
    cwd = os.getcwd()
    try:
        connected, states = asyncio.run(_scenario())
    finally:
        os.chdir(cwd)
        if saved_port is None:
            os.environ.pop('exabgp.tcp.port', None)
        else:
            os.environ['exabgp.tcp.port'] = saved_port
    assert connected is None, 'the passive neighbor opened a TCP connection to its peer'
    assert FSM.CONNECT not in states
