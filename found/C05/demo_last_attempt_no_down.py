"""C05: every API "up" of a neighbor is followed by a "down".

With exabgp.tcp.attempts=1 (the old tcp.once) the session comes up, the helper is told "up", the remote end
then closes the TCP connection (or sends a NOTIFICATION): Peer._run() calls stop() BEFORE _reset(), stop()
puts the FSM in IDLE, and _close() only reports "down" when the FSM is not IDLE: the helper never hears "down".

Real Peer / Protocol / Connection / configuration parser over a real loopback TCP connection; only the
reactor (its Processes) is a recorder.
"""

import asyncio
import os
import socket
from types import SimpleNamespace

import pytest

from exabgp.configuration.configuration import Configuration
from exabgp.environment import getenv
from exabgp.reactor.peer import Peer

CONFIG = """
process watcher {
    run /bin/cat;
    encoder text;
}
neighbor 127.0.0.1 {
    router-id 10.0.0.1;
    local-address 127.0.0.1;
    local-as 65001;
    peer-as 65001;
    api { processes [ watcher ]; neighbor-changes; }
}
"""

KEEPALIVE = b'\xff' * 16 + b'\x00\x13\x04'
CEASE = b'\xff' * 16 + b'\x00\x15\x03\x06\x02'


class Recorder:
    """Stands for reactor.processes: keeps the neighbor-changes events, ignores the rest."""

    def __init__(self):
        self.events = []

    def broken(self, neighbor):
        return False

    def up(self, neighbor):
        self.events.append('up')

    def down(self, neighbor, reason):
        self.events.append('down')

    def __getattr__(self, name):
        return lambda *args, **kwargs: None


async def _read_message(loop, sock):
    data = b''
    while len(data) < 19:
        data += await loop.sock_recv(sock, 19 - len(data))
    length = int.from_bytes(data[16:18], 'big')
    while len(data) < length:
        data += await loop.sock_recv(sock, length - len(data))
    return data


async def _scenario(ending):
    loop = asyncio.get_running_loop()
    server = socket.socket(socket.AF_INET, socket.SOCK_STREAM)
    server.setsockopt(socket.SOL_SOCKET, socket.SO_REUSEADDR, 1)
    server.bind(('127.0.0.1', 0))
    server.listen(1)
    server.setblocking(False)
    os.environ['exabgp.tcp.port'] = str(server.getsockname()[1])

    configuration = Configuration([CONFIG], text=True)
    assert configuration.reload(), configuration.error
    neighbor = list(configuration.neighbors.values())[0]
    recorder = Recorder()
    peer = Peer(neighbor, SimpleNamespace(processes=recorder))
    assert peer.max_connection_attempts == 1

    task = asyncio.ensure_future(peer.run())
    remote, _ = await asyncio.wait_for(loop.sock_accept(server), 10)
    remote.setblocking(False)
    try:
        opened = await asyncio.wait_for(_read_message(loop, remote), 10)
        assert opened[18] == 1
        # the remote end answers with the same OPEN under another router-id, then a KEEPALIVE
        await loop.sock_sendall(remote, opened[:24] + bytes([10, 0, 0, 2]) + opened[28:])
        await loop.sock_sendall(remote, KEEPALIVE)
        for _ in range(500):
            if 'up' in recorder.events:
                break
            await asyncio.sleep(0.01)
        assert recorder.events == ['up'], recorder.events

        if ending == 'notification':
            await loop.sock_sendall(remote, CEASE)
        remote.close()
        await asyncio.wait_for(task, 10)
    finally:
        remote.close()
        server.close()
        if not task.done():
            task.cancel()
    return peer, recorder.events


@pytest.mark.parametrize('ending', ['eof', 'notification'])
def test_up_is_followed_by_down_on_the_last_attempt(ending):
    env = getenv()
    saved = env.tcp.attempts
    saved_port = os.environ.get('exabgp.tcp.port')
    cwd = os.getcwd()
    env.tcp.attempts = 1
    try:
        peer, events = asyncio.run(_scenario(ending))
    finally:
        env.tcp.attempts = saved
        os.chdir(cwd)
        if saved_port is None:
            os.environ.pop('exabgp.tcp.port', None)
        else:
            os.environ['exabgp.tcp.port'] = saved_port
    assert peer.proto is None, 'the transport is closed'
    assert events == ['up', 'down'], 'the helper was told %s' % events
