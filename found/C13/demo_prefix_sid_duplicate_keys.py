"""C13: a BGP Prefix-SID attribute (40) which repeats a TLV renders the same JSON key twice.

PrefixSid.json() (attribute/sr/prefixsid.py) joins the json() member of every TLV it
decoded into ONE object, and nothing refuses or merges a repeated type, so

    label-index twice          -> { "sr-label-index": 0, "sr-label-index": 5 }
    originator SRGB twice      -> { "sr-srgbs": [...], "sr-srgbs": [...] }
    an unknown TLV twice       -> { "attribute-not-implemented-9": "01", "attribute-not-implemented-9": "02" }
    SRv6 L3 service twice      -> { "l3-service": [...], "l3-service": [...] }

and Srv6SidInformation.json() (attribute/sr/srv6/sidinformation.py) does the same one level
down: two SID Structure sub-sub-TLVs give "structure" twice.  Every JSON parser keeps one of
the two silently, so the peer decides which of its values the consumer sees.
"""

import json
import os
import struct

import pytest

from exabgp.bgp.message import Message
from exabgp.bgp.message.direction import Direction
from exabgp.bgp.message.open.capability.negotiated import Negotiated
from exabgp.configuration.setup import create_minimal_configuration
from exabgp.reactor.api.response.json import JSON
from exabgp.reactor.api.response.v4.json import V4JSON
from exabgp.version import json as json_version, json_v4


def attribute(flag: int, code: int, value: bytes) -> bytes:
    return bytes([flag, code, len(value)]) + value


def tlv(code: int, value: bytes) -> bytes:
    return bytes([code]) + struct.pack('!H', len(value)) + value


def update_with_prefix_sid(prefix_sid: bytes) -> bytes:
    attributes = (
        attribute(0x40, 1, b'\x00')
        + attribute(0x40, 2, b'')
        + attribute(0x40, 3, bytes([10, 0, 0, 1]))
        + attribute(0xC0, 40, prefix_sid)
    )
    return struct.pack('!H', 0) + struct.pack('!H', len(attributes)) + attributes + bytes([24, 10, 0, 0])


def no_duplicate(pairs):
    keys = [key for key, _ in pairs]
    repeated = sorted({key for key in keys if keys.count(key) > 1})
    assert not repeated, f'the object holds the key(s) {repeated} more than once'
    return dict(pairs)


SID_INFORMATION = b'\x00' + bytes(16) + b'\x00' + struct.pack('!H', 0x13) + b'\x00'
STRUCTURE = tlv(1, bytes([40, 24, 16, 0, 16, 64]))

CASES = {
    'label-index twice': tlv(1, bytes(7)) + tlv(1, bytes(6) + b'\x05'),
    'srgb twice': tlv(3, bytes(2) + bytes([0, 0, 1, 0, 0, 2])) + tlv(3, bytes(2) + bytes([0, 0, 3, 0, 0, 4])),
    'unknown tlv twice': tlv(9, b'\x01') + tlv(9, b'\x02'),
    'l3-service twice': tlv(5, b'\x00' + tlv(1, SID_INFORMATION)) + tlv(5, b'\x00' + tlv(1, SID_INFORMATION)),
    'sid structure twice': tlv(5, b'\x00' + tlv(1, SID_INFORMATION + STRUCTURE + STRUCTURE)),
}


@pytest.fixture(scope='module')
def session():
    cwd = os.getcwd()
    configuration = create_minimal_configuration(families='ipv4 unicast')
    configuration.reload()
    os.chdir(cwd)
    neighbor = list(configuration.neighbors.values())[0]
    return neighbor, Negotiated.make_negotiated(neighbor, Direction.IN)


@pytest.mark.parametrize('case', list(CASES))
@pytest.mark.parametrize('encoder', [JSON(json_version), V4JSON(json_v4)], ids=['v6', 'v4'])
def test_no_object_of_the_event_repeats_a_key(session, encoder, case: str) -> None:
    neighbor, negotiated = session
    message = Message.unpack(Message.CODE.UPDATE, update_with_prefix_sid(CASES[case]), negotiated)
    assert 40 in message.data.attributes, 'the attribute was decoded and kept'

    event = encoder.update(neighbor, 'receive', message.data, b'', b'', negotiated)

    assert '\n' not in event
    json.loads(event, object_pairs_hook=no_duplicate)
