"""C13: an SRv6 SID Information sub-TLV carrying a sub-sub-TLV ExaBGP does not know makes
the JSON UPDATE event a line no parser accepts (API v6 and v4).

Srv6SidInformation.json() (attribute/sr/srv6/sidinformation.py) splices the json() of its
sub-sub-TLVs in as MEMBERS of the object it is building.  The registered one
(Srv6SidStructure) returns a member, '"structure": {...}', but the fallback for every other
type, GenericSrv6ServiceDataSubSubTlv.json() (attribute/sr/srv6/generic.py), returns a whole
OBJECT '{"type": N, "raw": ".."}', so the event holds

    { "sid": "::", "flags": 0, "endpoint_behavior": 19, {"type": 9, "raw": "0102"} }

The attribute is BGP Prefix-SID (40) on a plain IPv4 unicast route: any peer can send it.
Driven through the real UPDATE decoder and the real encoders.
"""

import json
import os
import struct

import pytest

from exabgp.bgp.message import Message
from exabgp.bgp.message.direction import Direction
from exabgp.bgp.message.open.capability.negotiated import Negotiated
from exabgp.configuration.setup import create_minimal_configuration
from exabgp.reactor.api.response.json import JSON
from exabgp.reactor.api.response.v4.json import V4JSON
from exabgp.version import json as json_version, json_v4


def attribute(flag: int, code: int, value: bytes) -> bytes:
    return bytes([flag, code, len(value)]) + value


def tlv(code: int, value: bytes) -> bytes:
    return bytes([code]) + struct.pack('!H', len(value)) + value


def update_with_prefix_sid(prefix_sid: bytes) -> bytes:
    attributes = (
        attribute(0x40, 1, b'\x00')
        + attribute(0x40, 2, b'')
        + attribute(0x40, 3, bytes([10, 0, 0, 1]))
        + attribute(0xC0, 40, prefix_sid)
    )
    return struct.pack('!H', 0) + struct.pack('!H', len(attributes)) + attributes + bytes([24, 10, 0, 0])


# reserved(1) sid(16) flags(1) behavior(2) reserved(1)
SID_INFORMATION = b'\x00' + bytes(16) + b'\x00' + struct.pack('!H', 0x13) + b'\x00'


@pytest.fixture(scope='module')
def session():
    cwd = os.getcwd()
    configuration = create_minimal_configuration(families='ipv4 unicast')
    configuration.reload()
    os.chdir(cwd)
    neighbor = list(configuration.neighbors.values())[0]
    return neighbor, Negotiated.make_negotiated(neighbor, Direction.IN)


@pytest.mark.parametrize('service', [5, 6], ids=['l3-service', 'l2-service'])
@pytest.mark.parametrize('encoder', [JSON(json_version), V4JSON(json_v4)], ids=['v6', 'v4'])
def test_unknown_sub_sub_tlv_still_gives_a_json_event(session, encoder, service: int) -> None:
    neighbor, negotiated = session
    # SRv6 service TLV -> SID Information sub-TLV (1) -> sub-sub-TLV of type 9 (not registered)
    prefix_sid = tlv(service, b'\x00' + tlv(1, SID_INFORMATION + tlv(9, b'\x01\x02')))
    message = Message.unpack(Message.CODE.UPDATE, update_with_prefix_sid(prefix_sid), negotiated)
    assert 40 in message.data.attributes, 'the attribute was decoded and kept'

    event = encoder.update(neighbor, 'receive', message.data, b'', b'', negotiated)

    assert '\n' not in event
    try:
        decoded = json.loads(event)
    except ValueError as exc:
        raise AssertionError(f'the UPDATE event is not JSON ({exc}): ...{event[event.index("bgp-prefix-sid"):][:160]}') from None
    assert decoded['type'] == 'update'
