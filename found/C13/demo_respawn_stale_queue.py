"""C13: a respawned API helper is handed the tail of a record written to its predecessor.

Processes._terminate() forgets the process but keeps Processes._write_queue[name].  When
the helper exits while a record is only partly written (the pipe was full, the remainder
is waiting in the queue), _handle_problem() respawns a helper of the same name at once and
flush_write_queue() delivers the remainder - the second half of a JSON line - to the new
helper as its first "event".

Real Processes, real encoder, real UPDATE decoder, real pipes and real helper programs;
only the reactor main loop is replaced by a few explicit flush_write_queue() calls.
"""

import asyncio
import json
import os
import struct
import sys
import time
from types import SimpleNamespace

from exabgp.bgp.message import Message
from exabgp.bgp.message.direction import Direction
from exabgp.bgp.message.open.capability.negotiated import Negotiated
from exabgp.configuration.setup import create_minimal_configuration
from exabgp.reactor.api.processes import Processes

HELPER = r"""
import os, sys, time
marker, out = sys.argv[1], sys.argv[2]
if not os.path.exists(marker):
    open(marker, 'w').close()
    time.sleep(1.5)          # first life: never reads its stdin, then dies
    sys.exit(1)
with open(out, 'w') as record:  # second life: records every line it is given
    for line in sys.stdin:
        record.write(line)
        record.flush()
"""


def attribute(flag: int, code: int, value: bytes) -> bytes:
    return bytes([flag, code, len(value)]) + value


def big_update() -> bytes:
    """A plain IPv4 unicast UPDATE with 400 prefixes: its JSON event is far above PIPE_BUF."""
    attributes = attribute(0x40, 1, b'\x00') + attribute(0x40, 2, b'') + attribute(0x40, 3, bytes([10, 0, 0, 1]))
    nlri = b''.join(bytes([24, 10, index >> 8, index & 0xFF]) for index in range(400))
    return struct.pack('!H', 0) + struct.pack('!H', len(attributes)) + attributes + nlri


def test_a_respawned_helper_only_receives_whole_records(tmp_path) -> None:
    cwd = os.getcwd()
    configuration = create_minimal_configuration(families='ipv4 unicast')
    configuration.reload()
    os.chdir(cwd)
    neighbor = list(configuration.neighbors.values())[0]
    neighbor.api = {'receive-update': ['helper']}
    negotiated = Negotiated.make_negotiated(neighbor, Direction.IN)
    update = Message.unpack(Message.CODE.UPDATE, big_update(), negotiated)
    peer = SimpleNamespace(neighbor=neighbor)

    script = tmp_path / 'helper.py'
    script.write_text(HELPER)
    marker, recorded = tmp_path / 'marker', tmp_path / 'recorded'

    async def scenario() -> None:
        processes = Processes()
        processes.setup_async_readers(asyncio.get_running_loop())
        processes.start(
            {
                'helper': {
                    'run': [sys.executable, str(script), str(marker), str(recorded)],
                    'encoder': 'json',
                    'respawn': True,
                }
            }
        )
        try:
            first = processes._process['helper'].pid
            # the peer sends UPDATEs while the helper is not reading: the pipe fills up and
            # one record is left partly written, its remainder at the head of the queue
            for _ in range(12):
                processes.message(Message.CODE.UPDATE, peer, 'receive', update, b'', b'', negotiated)
            for _ in range(4):
                await processes.flush_write_queue()
            assert processes.get_queue_size('helper') > 0, 'the pipe did not fill: nothing to demonstrate'

            # the helper dies; the reader callback sees EOF and respawns it
            deadline = time.time() + 10
            while time.time() < deadline:
                await asyncio.sleep(0.05)
                current = processes._process.get('helper')
                if current is not None and current.pid != first:
                    break
            assert processes._process['helper'].pid != first, 'the helper was not respawned'

            # the peer sends one more UPDATE, the main loop flushes as it always does
            processes.message(Message.CODE.UPDATE, peer, 'receive', update, b'', b'', negotiated)
            deadline = time.time() + 10
            while time.time() < deadline and processes.get_queue_size('helper'):
                await processes.flush_write_queue()
                await asyncio.sleep(0.02)
            await asyncio.sleep(0.5)
        finally:
            processes.silence = True
            await processes.terminate_async()

    asyncio.run(scenario())

    lines = recorded.read_text().splitlines()
    assert lines, 'the respawned helper received nothing'
    for number, line in enumerate(lines):
        try:
            event = json.loads(line)
        except ValueError:
            raise AssertionError(
                f'line {number} given to the respawned helper is not a record: {line[:60]!r} ... ({len(line)} bytes)'
            ) from None
        assert event['type'] == 'update'
