"""C13: a BGP-LS bandwidth TLV holding an IEEE infinity or NaN makes the JSON UPDATE event a
line which is not JSON: the bare tokens NaN, Infinity and -Infinity are written as values.

The six float TLVs of the BGP-LS attribute (1089 maximum-link-bandwidth, 1090
maximum-reservable-link-bandwidth, 1091 unreserved-bandwidth, 1118/1119/1120 unidirectional
residual/available/utilized bandwidth) hand the float they unpack to json.dumps
(BaseLS.json, attribute/bgpls/linkstate.py), and json.dumps writes non finite floats as
NaN / Infinity / -Infinity, which RFC 8259 section 6 excludes.  Python's own json.loads
reads them back by default, so a check written in Python does not notice; JavaScript's
JSON.parse, jq, Go's encoding/json and serde_json all refuse the whole line.  The strict
reading is asked of json.loads below with parse_constant.

Attribute 29 is decoded on any family, so a plain IPv4 unicast UPDATE is enough.
"""

import json
import os
import struct

import pytest

from exabgp.bgp.message import Message
from exabgp.bgp.message.direction import Direction
from exabgp.bgp.message.open.capability.negotiated import Negotiated
from exabgp.configuration.setup import create_minimal_configuration
from exabgp.reactor.api.response.json import JSON
from exabgp.reactor.api.response.v4.json import V4JSON
from exabgp.version import json as json_version, json_v4


def attribute(flag: int, code: int, value: bytes) -> bytes:
    return bytes([flag, code, len(value)]) + value


def tlv(code: int, value: bytes) -> bytes:
    return struct.pack('!HH', code, len(value)) + value


def update_with_link_state(link_state: bytes) -> bytes:
    attributes = (
        attribute(0x40, 1, b'\x00')
        + attribute(0x40, 2, b'')
        + attribute(0x40, 3, bytes([10, 0, 0, 1]))
        + attribute(0x80, 29, link_state)
    )
    return struct.pack('!H', 0) + struct.pack('!H', len(attributes)) + attributes + bytes([24, 10, 0, 0])


def not_json(name: str) -> float:
    raise AssertionError(f'the event holds the bare token {name}, which is not JSON (RFC 8259 section 6)')


INFINITY, MINUS_INFINITY, NAN = bytes.fromhex('7f800000'), bytes.fromhex('ff800000'), bytes.fromhex('7fc00000')

CASES = {
    'maximum-link-bandwidth infinity': tlv(1089, INFINITY),
    'maximum-link-bandwidth nan': tlv(1089, NAN),
    'maximum-reservable-link-bandwidth -infinity': tlv(1090, MINUS_INFINITY),
    'unreserved-bandwidth nan': tlv(1091, bytes(28) + NAN),
    'unidirectional-residual-bandwidth nan': tlv(1118, NAN),
    'unidirectional-available-bandwidth infinity': tlv(1119, INFINITY),
    'unidirectional-utilized-bandwidth -infinity': tlv(1120, MINUS_INFINITY),
}


@pytest.fixture(scope='module')
def session():
    cwd = os.getcwd()
    configuration = create_minimal_configuration(families='ipv4 unicast')
    configuration.reload()
    os.chdir(cwd)
    neighbor = list(configuration.neighbors.values())[0]
    return neighbor, Negotiated.make_negotiated(neighbor, Direction.IN)


@pytest.mark.parametrize('case', list(CASES))
@pytest.mark.parametrize('encoder', [JSON(json_version), V4JSON(json_v4)], ids=['v6', 'v4'])
def test_the_event_is_json_whatever_float_the_peer_chose(session, encoder, case: str) -> None:
    neighbor, negotiated = session
    message = Message.unpack(Message.CODE.UPDATE, update_with_link_state(CASES[case]), negotiated)
    assert 29 in message.data.attributes, 'the attribute was decoded and kept'

    event = encoder.update(neighbor, 'receive', message.data, b'', b'', negotiated)

    assert '\n' not in event
    decoded = json.loads(event, parse_constant=not_json)
    assert decoded['type'] == 'update'
