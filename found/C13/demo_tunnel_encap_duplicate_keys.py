"""C13: a Tunnel Encapsulation attribute (23) which repeats a tunnel type, or an SR Policy
tunnel which repeats a sub-TLV, renders the same JSON key twice in one object.

TunnelEncap.json() (attribute/tunnel_encap/__init__.py) joins one member per Tunnel TLV
into a single object: two TLVs of type 1 give { "tunnel-type-1": "0x03", "tunnel-type-1":
"0x04" }, two SR Policy TLVs give "sr-policy" twice.  SRPolicyTunnel.json()
(attribute/tunnel_encap/sr_policy/__init__.py) does the same with its sub-TLVs: only the
segment lists are collected into an array, so two preference, priority, binding-sid,
policy-name, candidate-path-name or unknown sub-TLVs give their key twice.  RFC 9012
allows several TLVs of one tunnel type, so the first case is not even malformed.
"""

import json
import os
import struct

import pytest

from exabgp.bgp.message import Message
from exabgp.bgp.message.direction import Direction
from exabgp.bgp.message.open.capability.negotiated import Negotiated
from exabgp.configuration.setup import create_minimal_configuration
from exabgp.reactor.api.response.json import JSON
from exabgp.reactor.api.response.v4.json import V4JSON
from exabgp.version import json as json_version, json_v4


def attribute(flag: int, code: int, value: bytes) -> bytes:
    return bytes([flag, code, len(value)]) + value


def tunnel(kind: int, value: bytes) -> bytes:
    return struct.pack('!HH', kind, len(value)) + value


def sub_tlv(kind: int, value: bytes) -> bytes:
    return (bytes([kind, len(value)]) if kind < 128 else bytes([kind]) + struct.pack('!H', len(value))) + value


def update_with_tunnel_encap(value: bytes) -> bytes:
    attributes = (
        attribute(0x40, 1, b'\x00')
        + attribute(0x40, 2, b'')
        + attribute(0x40, 3, bytes([10, 0, 0, 1]))
        + attribute(0xC0, 23, value)
    )
    return struct.pack('!H', 0) + struct.pack('!H', len(attributes)) + attributes + bytes([24, 10, 0, 0])


def no_duplicate(pairs):
    keys = [key for key, _ in pairs]
    repeated = sorted({key for key in keys if keys.count(key) > 1})
    assert not repeated, f'the object holds the key(s) {repeated} more than once'
    return dict(pairs)


PREFERENCE = lambda value: sub_tlv(12, struct.pack('!BBI', 0, 0, value))  # noqa: E731

CASES = {
    'tunnel type 1 twice': tunnel(1, b'\x03') + tunnel(1, b'\x04'),
    'sr-policy tunnel twice': tunnel(15, PREFERENCE(100)) + tunnel(15, PREFERENCE(200)),
    'preference twice': tunnel(15, PREFERENCE(100) + PREFERENCE(200)),
    'priority twice': tunnel(15, sub_tlv(15, b'\x01\x00') + sub_tlv(15, b'\x02\x00')),
    'policy name twice': tunnel(15, sub_tlv(130, b'\x00one') + sub_tlv(130, b'\x00two')),
    'binding sid twice': tunnel(15, sub_tlv(13, bytes(2) + bytes([0, 1, 0, 0])) + sub_tlv(13, bytes(2) + bytes([0, 2, 0, 0]))),
    'unknown sub-tlv twice': tunnel(15, sub_tlv(77, b'\x01') + sub_tlv(77, b'\x02')),
}


@pytest.fixture(scope='module')
def session():
    cwd = os.getcwd()
    configuration = create_minimal_configuration(families='ipv4 unicast')
    configuration.reload()
    os.chdir(cwd)
    neighbor = list(configuration.neighbors.values())[0]
    return neighbor, Negotiated.make_negotiated(neighbor, Direction.IN)


@pytest.mark.parametrize('case', list(CASES))
@pytest.mark.parametrize('encoder', [JSON(json_version), V4JSON(json_v4)], ids=['v6', 'v4'])
def test_no_object_of_the_event_repeats_a_key(session, encoder, case: str) -> None:
    neighbor, negotiated = session
    message = Message.unpack(Message.CODE.UPDATE, update_with_tunnel_encap(CASES[case]), negotiated)
    assert 23 in message.data.attributes, 'the attribute was decoded and kept'

    event = encoder.update(neighbor, 'receive', message.data, b'', b'', negotiated)

    assert '\n' not in event
    json.loads(event, object_pairs_hook=no_duplicate)
