"""C13 (text encoding, API v4): a peer-chosen name holding a double quote forges fields of
the text UPDATE event.

The text encoders escape control characters (oneline) and nothing else.  The SR Policy
names of the Tunnel Encapsulation attribute are written between double quotes,
    policy-name "<name>"
(PolicyNameSubTLV.__str__ / CandidatePathNameSubTLV.__str__, attribute/tunnel_encap/
sr_policy/*.py) and a quote inside the name is copied as it is.  A policy named

    x" preference 4000000000 policy-name "y

therefore renders EXACTLY the line which a genuine attribute holding a preference of
4000000000 between two names renders: the consumer of the text API cannot tell the forged
'preference' field from a real one.  The same holds for the operational advisory
(advisory "<text>") and the shutdown communication in the 'down' reason.
"""

import os
import struct

import pytest

from exabgp.bgp.message import Message
from exabgp.bgp.message.direction import Direction
from exabgp.bgp.message.open.capability.negotiated import Negotiated
from exabgp.configuration.setup import create_minimal_configuration
from exabgp.reactor.api.response.v4.text import V4Text
from exabgp.version import text_v4


def attribute(flag: int, code: int, value: bytes) -> bytes:
    return bytes([flag, code, len(value)]) + value


def sub_tlv(kind: int, value: bytes) -> bytes:
    return (bytes([kind, len(value)]) if kind < 128 else bytes([kind]) + struct.pack('!H', len(value))) + value


def update_with_sr_policy(sub_tlvs: bytes) -> bytes:
    tunnel = struct.pack('!HH', 15, len(sub_tlvs)) + sub_tlvs
    attributes = (
        attribute(0x40, 1, b'\x00')
        + attribute(0x40, 2, b'')
        + attribute(0x40, 3, bytes([10, 0, 0, 1]))
        + attribute(0xC0, 23, tunnel)
    )
    return struct.pack('!H', 0) + struct.pack('!H', len(attributes)) + attributes + bytes([24, 10, 0, 0])


@pytest.fixture(scope='module')
def session():
    cwd = os.getcwd()
    configuration = create_minimal_configuration(families='ipv4 unicast')
    configuration.reload()
    os.chdir(cwd)
    neighbor = list(configuration.neighbors.values())[0]
    return neighbor, Negotiated.make_negotiated(neighbor, Direction.IN)


def render(session, sub_tlvs: bytes) -> str:
    neighbor, negotiated = session
    message = Message.unpack(Message.CODE.UPDATE, update_with_sr_policy(sub_tlvs), negotiated)
    assert 23 in message.data.attributes
    return V4Text(text_v4).update(neighbor, 'receive', message.data, b'', b'', negotiated)


def test_a_name_cannot_pass_for_a_preference_field(session) -> None:
    # one sub-TLV: a policy name (type 130), flags octet then the name
    forged = render(session, sub_tlv(130, b'\x00' + b'x" preference 4000000000 policy-name "y'))
    # three sub-TLVs: name 'x', a real preference of 4000000000, name 'y'
    genuine = render(
        session,
        sub_tlv(130, b'\x00x') + sub_tlv(12, struct.pack('!BBI', 0, 0, 4000000000)) + sub_tlv(130, b'\x00y'),
    )
    assert ' preference 4000000000 ' in genuine
    assert forged != genuine, (
        'one sub-TLV holding only a name renders the very line of an attribute with a preference field:\n' + forged
    )
