"""C12 demo: a peer which stops reading and stops sending is never closed by the hold timer.

Hold time 3 s.  ExaBGP has a batch of UPDATEs to send; the peer completes the handshake and then neither
reads nor sends anything.  The socket fills, `sock_sendall` blocks inside Peer._main's outbound half, and
the hold timer - only looked at between two writes - never expires: "a session on which nothing is
received for more than H seconds is closed with NOTIFICATION 4/0" does not hold, the session stays up
for ever (and the NOTIFICATION of _run() would block the same way).

Real Peer._run (_establish + _main) / Protocol / Connection over a real socketpair and the real clock.
"""

import asyncio
import os
import socket
import struct
from unittest.mock import MagicMock

import pytest

from exabgp.configuration.configuration import Configuration
from exabgp.protocol.family import AFI
from exabgp.reactor.network.connection import Connection
from exabgp.reactor.peer.peer import Peer
from exabgp.reactor.protocol import Protocol
from exabgp.rib import RIB

CONF = """
neighbor 127.0.0.2 {
    router-id 10.0.0.1;
    local-address 127.0.0.1;
    local-as 65001;
    peer-as 65002;
    hold-time 3;
    static {
%s    }
}
""" % ''.join(
    f'        route 10.{i // 250}.{i % 250}.0/24 next-hop 10.0.0.9 med {i};\n' for i in range(4000)
)
MARKER = b'\xff' * 16


def bgp(kind: int, body: bytes = b'') -> bytes:
    return MARKER + struct.pack('!HB', 19 + len(body), kind) + body


def connected_peer():
    """a real Peer holding an accepted connection (one end of a socketpair), about to run _establish()"""
    cwd, mask = os.getcwd(), os.umask(0o022)
    RIB._cache.clear()
    cfg = Configuration([CONF], text=True)
    assert cfg.reload(), cfg.error
    os.chdir(cwd)
    os.umask(mask)
    neighbor = next(iter(cfg.neighbors.values()))
    peer = Peer(neighbor, MagicMock())
    ours, theirs = socket.socketpair()
    ours.setsockopt(socket.SOL_SOCKET, socket.SO_SNDBUF, 4096)
    ours.setblocking(False)
    theirs.setblocking(False)
    conn = Connection(AFI.ipv4, '127.0.0.2', '127.0.0.1')
    conn.io = ours
    peer.proto = Protocol(peer)
    peer.proto.connection = conn
    return peer, theirs


@pytest.mark.asyncio
async def test_a_peer_which_neither_reads_nor_sends_is_closed_by_the_hold_timer():
    peer, theirs = connected_peer()
    sent = []
    real = peer.proto.new_notification

    async def spy(notify):
        sent.append((notify.code, notify.subcode))
        return await real(notify)

    peer.proto.new_notification = spy
    loop = asyncio.get_event_loop()
    # OPEN: version 4, AS 65002, hold time 3, router-id 10.0.0.2, multiprotocol ipv4 unicast; then KEEPALIVE
    peer_open = bytes([4]) + struct.pack('!HH', 65002, 3) + bytes([10, 0, 0, 2]) + bytes([8, 2, 6, 1, 4, 0, 1, 0, 1])
    await loop.sock_sendall(theirs, bgp(1, peer_open) + bgp(4))
    run = asyncio.ensure_future(peer._run())
    # the peer now goes dead: it neither reads nor sends.  3 s hold time, 1 s of granularity on each side,
    # and some seconds for a NOTIFICATION which cannot be written either
    done, _ = await asyncio.wait({run}, timeout=12)
    established = peer.stats['up']
    if not done:
        run.cancel()
    theirs.close()
    assert established == 1, 'the session never came up: the demo is broken'
    assert done, 'nothing received for 12 s with a hold time of 3 s and the session is still up'
    assert sent == [(4, 0)], sent
