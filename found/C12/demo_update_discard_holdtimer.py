"""C12 demo: a peer which keeps sending UPDATEs is closed with 4/0 (hold timer expired).

RFC 4271: the hold timer is restarted by every KEEPALIVE *and UPDATE*.  An UPDATE whose AGGREGATOR is
malformed (RFC 7606 "attribute discard") comes out of Protocol.read_message() as the internal NOP,
which ReceiveTimer takes for "nothing was received".  The peer sends one such UPDATE every 0.5 s and
never goes silent, the hold time is 3 s: the session must stay up.

Real Peer._main / Protocol / Connection / ReceiveTimer over a real socketpair and the real clock.
"""

import asyncio
import os
import socket
import struct
from unittest.mock import MagicMock

import pytest

from exabgp.bgp.message import Notify
from exabgp.bgp.message.open import Open
from exabgp.bgp.message.open.asn import ASN
from exabgp.bgp.message.open.capability import Capabilities
from exabgp.bgp.message.open.holdtime import HoldTime
from exabgp.bgp.message.open.routerid import RouterID
from exabgp.bgp.message.open.version import Version
from exabgp.bgp.timer import ReceiveTimer
from exabgp.configuration.configuration import Configuration
from exabgp.protocol.family import AFI
from exabgp.reactor.network.connection import Connection
from exabgp.reactor.peer.peer import Peer
from exabgp.reactor.protocol import Protocol
from exabgp.rib import RIB

CONF = """
neighbor 127.0.0.2 {
    router-id 10.0.0.1;
    local-address 127.0.0.1;
    local-as 65001;
    peer-as 65002;
    hold-time 3;
}
"""
MARKER = b'\xff' * 16


def bgp(kind: int, body: bytes = b'') -> bytes:
    return MARKER + struct.pack('!HB', 19 + len(body), kind) + body


def attr(flag: int, code: int, value: bytes) -> bytes:
    return bytes([flag, code, len(value)]) + value


# origin igp, empty as-path, next-hop, and an AGGREGATOR of 5 bytes (6 or 8 are the legal sizes): discarded
ATTRS = (
    attr(0x40, 1, b'\x00') + attr(0x40, 2, b'') + attr(0x40, 3, bytes([10, 0, 0, 2])) + attr(0xC0, 7, b'\x00' * 5)
)
UPDATE = bgp(2, struct.pack('!H', 0) + struct.pack('!H', len(ATTRS)) + ATTRS + bytes([24, 192, 0, 2]))


def established_peer(holdtime: int):
    """a real Peer, as _establish() leaves it, on one end of a socketpair"""
    cwd, mask = os.getcwd(), os.umask(0o022)
    RIB._cache.clear()
    cfg = Configuration([CONF], text=True)
    assert cfg.reload(), cfg.error
    os.chdir(cwd)
    os.umask(mask)
    neighbor = next(iter(cfg.neighbors.values()))
    peer = Peer(neighbor, MagicMock())
    ours, theirs = socket.socketpair()
    ours.setblocking(False)
    theirs.setblocking(False)
    conn = Connection(AFI.ipv4, '127.0.0.2', '127.0.0.1')
    conn.io = ours
    peer.proto = Protocol(peer)
    peer.proto.connection = conn
    caps = Capabilities()
    peer.proto.negotiated.sent(Open.make_open(Version(4), ASN(65001), HoldTime(holdtime), RouterID('10.0.0.1'), caps))
    peer.proto.negotiated.received(
        Open.make_open(Version(4), ASN(65002), HoldTime(holdtime), RouterID('10.0.0.2'), caps)
    )
    assert peer.proto.negotiated.holdtime == holdtime
    peer.recv_timer = ReceiveTimer(conn.session, peer.proto.negotiated.holdtime, 4, 0)
    return peer, theirs


@pytest.mark.asyncio
async def test_updates_with_a_discarded_attribute_keep_the_session_up():
    peer, theirs = established_peer(3)
    main = asyncio.ensure_future(peer._main())
    loop = asyncio.get_event_loop()
    ended = None
    for _ in range(14):  # 7 seconds, an UPDATE every half second: never 3 seconds of silence
        await loop.sock_sendall(theirs, UPDATE)
        await asyncio.sleep(0.5)
        if main.done():
            ended = main.exception()
            break
    peer._teardown = 3
    if not main.done():
        main.cancel()
    theirs.close()
    assert peer.stats['receive-update'] >= 5
    assert not (isinstance(ended, Notify) and (ended.code, ended.subcode) == (4, 0)), (
        'closed with 4/0 (hold timer expired) although an UPDATE arrived every 0.5 s'
    )
    assert ended is None, ended
