"""C04: the Adj-RIB-Out is keyed by path-information even when it does not reach the wire.

Without ADD-PATH negotiated, INET.pack_nlri() strips the path identifier: two routes of one prefix
which differ by 'path-information' are one route for the peer, but two entries of the Adj-RIB-Out.
Withdrawing one removes the prefix at the peer while ExaBGP still reports the other as advertised.
With ADD-PATH, a route without path-information and one with 'path-information 0.0.0.0' are both
path 0 on the wire and two entries in the RIB.
"""

from unittest.mock import Mock

from exabgp.bgp.message.direction import Direction
from exabgp.bgp.message.open.capability.negotiated import Negotiated
from exabgp.bgp.message.update.attribute.collection import AttributeCollection
from exabgp.bgp.message.update.attribute.nexthop import NextHop
from exabgp.bgp.message.update.attribute.origin import Origin
from exabgp.bgp.message.update.collection import UpdateCollection
from exabgp.bgp.message.update.nlri.cidr import CIDR
from exabgp.bgp.message.update.nlri.inet import INET
from exabgp.bgp.message.update.nlri.qualifier import PathInfo
from exabgp.protocol.family import AFI, SAFI
from exabgp.protocol.ip import IP
from exabgp.rib.outgoing import OutgoingRIB
from exabgp.rib.route import Route

FAMILY = (AFI.ipv4, SAFI.unicast)


def negotiated(addpath: bool) -> Negotiated:
    neighbor = Mock()
    neighbor.__getitem__ = Mock(return_value={'aigp': False})
    neg = Negotiated.make_negotiated(neighbor, Direction.OUT)
    neg.families = [FAMILY]
    neg.addpath._send[FAMILY] = addpath
    neg.addpath._receive[FAMILY] = addpath
    return neg


def route(prefix: str, path_id: int | None, origin: int) -> Route:
    ip, mask = prefix.split('/')
    path_info = PathInfo.DISABLED if path_id is None else PathInfo.make_from_integer(path_id)
    nlri = INET.from_cidr(CIDR.create_cidr(IP.pton(ip), int(mask)), AFI.ipv4, SAFI.unicast, path_info=path_info)
    attributes = AttributeCollection()
    attributes.add(Origin.from_int(origin))
    attributes.add(NextHop.from_string('10.0.0.1'))
    return Route(nlri, attributes, nexthop=IP.from_string('10.0.0.1'))


def drain(rib: OutgoingRIB, neg: Negotiated, table: dict) -> None:
    """What protocol.new_update_generator does, the peer applying every UPDATE it is sent."""
    for update in rib.updates(True, paths_limit=neg.paths_limit or None):
        for message in update.messages(neg, True):
            parsed = UpdateCollection.unpack_message(message[19:], neg)
            for nlri in parsed.withdraws:
                table.pop(nlri.pack_nlri(neg), None)
            for routed in parsed.announces:
                table[routed.nlri.pack_nlri(neg)] = str(parsed.attributes[Origin.ID])


def reported(rib: OutgoingRIB, neg: Negotiated) -> dict:
    # several entries with the same wire key: the peer can only hold one, the last one is kept here
    return {r.nlri.pack_nlri(neg): str(r.attributes[Origin.ID]) for r in rib.cached_routes()}


def test_path_information_without_addpath() -> None:
    neg = negotiated(addpath=False)
    rib = OutgoingRIB(True, {FAMILY})
    peer: dict = {}

    rib.add_to_rib(route('10.0.0.0/24', 1, 0))
    rib.add_to_rib(route('10.0.0.0/24', 2, 1))
    drain(rib, neg, peer)
    rib.del_from_rib(route('10.0.0.0/24', 2, 1))
    drain(rib, neg, peer)

    assert peer == {}  # the only 10.0.0.0/24 the peer can hold was withdrawn
    assert peer == reported(rib, neg)


def test_no_path_information_and_path_zero_with_addpath() -> None:
    neg = negotiated(addpath=True)
    rib = OutgoingRIB(True, {FAMILY})
    peer: dict = {}

    rib.add_to_rib(route('10.0.0.0/24', None, 0))
    rib.add_to_rib(route('10.0.0.0/24', 0, 1))
    drain(rib, neg, peer)
    rib.del_from_rib(route('10.0.0.0/24', 0, 1))
    drain(rib, neg, peer)

    assert peer == {}
    assert peer == reported(rib, neg)
