"""C04: a path dropped by the PATHS-LIMIT filter of OutgoingRIB.updates() stays in the Adj-RIB-Out.

Two paths of one prefix are announced in the same window to a peer which advertised a limit of
one path.  The second one is not sent, yet 'show adj-rib out' (cached_routes) lists it: the table
the peer builds from the UPDATEs differs from the table ExaBGP reports.
"""

from unittest.mock import Mock

from exabgp.bgp.message.direction import Direction
from exabgp.bgp.message.open.capability.negotiated import Negotiated
from exabgp.bgp.message.update.attribute.collection import AttributeCollection
from exabgp.bgp.message.update.attribute.nexthop import NextHop
from exabgp.bgp.message.update.attribute.origin import Origin
from exabgp.bgp.message.update.collection import UpdateCollection
from exabgp.bgp.message.update.nlri.cidr import CIDR
from exabgp.bgp.message.update.nlri.inet import INET
from exabgp.bgp.message.update.nlri.qualifier import PathInfo
from exabgp.protocol.family import AFI, SAFI
from exabgp.protocol.ip import IP
from exabgp.rib.outgoing import OutgoingRIB
from exabgp.rib.route import Route

FAMILY = (AFI.ipv4, SAFI.unicast)


def negotiated() -> Negotiated:
    neighbor = Mock()
    neighbor.__getitem__ = Mock(return_value={'aigp': False})
    neg = Negotiated.make_negotiated(neighbor, Direction.OUT)
    neg.families = [FAMILY]
    neg.addpath._send[FAMILY] = True
    neg.addpath._receive[FAMILY] = True
    neg.paths_limit = {FAMILY: 1}
    return neg


def route(prefix: str, path_id: int, origin: int) -> Route:
    ip, mask = prefix.split('/')
    nlri = INET.from_cidr(
        CIDR.create_cidr(IP.pton(ip), int(mask)), AFI.ipv4, SAFI.unicast, path_info=PathInfo.make_from_integer(path_id)
    )
    attributes = AttributeCollection()
    attributes.add(Origin.from_int(origin))
    attributes.add(NextHop.from_string('10.0.0.1'))
    return Route(nlri, attributes, nexthop=IP.from_string('10.0.0.1'))


def drain(rib: OutgoingRIB, neg: Negotiated, table: dict) -> None:
    """What protocol.new_update_generator does, the peer applying every UPDATE it is sent."""
    for update in rib.updates(True, paths_limit=neg.paths_limit or None):
        for message in update.messages(neg, True):
            parsed = UpdateCollection.unpack_message(message[19:], neg)
            for nlri in parsed.withdraws:
                table.pop(nlri.pack_nlri(neg), None)
            for routed in parsed.announces:
                table[routed.nlri.pack_nlri(neg)] = str(parsed.attributes[Origin.ID])


def reported(rib: OutgoingRIB, neg: Negotiated) -> dict:
    return {r.nlri.pack_nlri(neg): str(r.attributes[Origin.ID]) for r in rib.cached_routes()}


def test_path_over_the_limit_is_not_reported_as_advertised() -> None:
    neg = negotiated()
    rib = OutgoingRIB(True, {FAMILY})
    peer: dict = {}

    rib.add_to_rib(route('10.0.0.0/24', 1, 0))
    rib.add_to_rib(route('10.0.0.0/24', 2, 1))
    drain(rib, neg, peer)

    assert len(peer) == 1  # the limit was respected
    assert peer == reported(rib, neg)


def test_withdrawing_the_sent_path_leaves_the_same_table_on_both_sides() -> None:
    neg = negotiated()
    rib = OutgoingRIB(True, {FAMILY})
    peer: dict = {}

    rib.add_to_rib(route('10.0.0.0/24', 1, 0))
    rib.add_to_rib(route('10.0.0.0/24', 2, 1))
    drain(rib, neg, peer)
    rib.del_from_rib(route('10.0.0.0/24', 1, 0))
    drain(rib, neg, peer)

    assert peer == reported(rib, neg)


def test_new_version_of_a_path_over_the_limit_does_not_leave_the_old_one() -> None:
    neg = negotiated()
    rib = OutgoingRIB(True, {FAMILY})
    peer: dict = {}

    rib.add_to_rib(route('10.0.0.0/24', 2, 0))
    drain(rib, neg, peer)
    # same window: a new path, then a new version of the path the peer has, which is over the limit
    rib.add_to_rib(route('10.0.0.0/24', 1, 0))
    rib.add_to_rib(route('10.0.0.0/24', 2, 1))
    drain(rib, neg, peer)

    assert peer == reported(rib, neg)
