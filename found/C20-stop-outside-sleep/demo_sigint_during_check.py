"""C20: 'withdraws its routes on exit' is violated when SIGINT lands anywhere but
in the sleep between two checks.

loop() only wraps time.sleep() in 'try ... except KeyboardInterrupt: exabgp(EXIT)'
(healthcheck.py, end of loop()).  The check command (up to --timeout seconds, by
default as long as the sleep itself) and the writing of the announcements run
outside that try, and main() catches Exception only, so a KeyboardInterrupt raised
there ends the helper with a traceback and the routes stay announced.

The real helper is run as a child with real pipes and a real signal.
"""

from __future__ import annotations

import os
import select
import signal
import subprocess
import sys
import time

HERE = os.path.dirname(os.path.abspath(__file__))


def test_sigint_during_check_withdraws_routes(tmp_path) -> None:
    first = tmp_path / 'first-check-done'
    started = tmp_path / 'slow-check-started'
    # first check: immediate success (route announced).  later checks: slow.
    command = f'if test -e {first}; then touch {started}; sleep 5; else touch {first}; fi'

    env = dict(os.environ, PYTHONPATH=os.path.join(HERE, 'src'))
    argv = [sys.executable, '-m', 'exabgp.application.healthcheck', '--no-syslog', '--no-ip-setup', '--no-ack']
    argv += ['--ip', '192.0.2.1/32', '--rise', '1', '--interval', '0.1', '--timeout', '30', '--cmd', command]
    proc = subprocess.Popen(
        argv, stdin=subprocess.PIPE, stdout=subprocess.PIPE, stderr=subprocess.PIPE, env=env, bufsize=0
    )
    try:
        ready, _, _ = select.select([proc.stdout], [], [], 10)
        assert ready, 'the helper announced nothing'
        line = proc.stdout.readline().decode()
        assert line.startswith('peer * announce route 192.0.2.1/32 '), line

        # wait until the helper is inside check(), running the slow command
        deadline = time.time() + 10
        while not started.exists():
            assert time.time() < deadline, 'the second check never started'
            time.sleep(0.05)
        time.sleep(0.2)

        proc.send_signal(signal.SIGINT)
        out, err = proc.communicate(timeout=15)
    finally:
        if proc.poll() is None:
            proc.kill()
            out, err = proc.communicate()

    lines = out.decode().splitlines()
    assert 'peer * withdraw route 192.0.2.1/32 next-hop self' in lines, (
        f'the helper exited (status {proc.returncode}) without withdrawing its route; it wrote {lines}\n'
        f'--- helper stderr ---\n{err.decode()[-1200:]}'
    )
