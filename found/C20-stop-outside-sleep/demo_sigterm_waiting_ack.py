"""C20: 'withdraws its routes on exit' is violated when SIGTERM lands while the
helper is blocked in sys.stdin.readline() waiting for the daemon's ack.

The SIGTERM handler (healthcheck.py, sigterm_handler -> exabgp(States.EXIT)) runs
inside the interrupted BufferedReader.readline() call, writes the withdrawal of the
first IP, then calls sys.stdin.readline() itself, which raises
"RuntimeError: reentrant call inside <_io.BufferedReader name='<stdin>'>".
The exception unwinds through main(), which exits with status 1: the other routes
are never withdrawn.

The real helper is run as a child with real pipes and a real signal; this file
plays the daemon's side of the pipe (reads commands, answers 'done').
"""

from __future__ import annotations

import os
import select
import signal
import subprocess
import sys
import time

HERE = os.path.dirname(os.path.abspath(__file__))
IPS = ['192.0.2.1/32', '192.0.2.2/32', '192.0.2.3/32']


def _read_line(proc: subprocess.Popen, timeout: float = 10.0) -> str:
    ready, _, _ = select.select([proc.stdout], [], [], timeout)
    assert ready, 'the helper wrote nothing'
    return proc.stdout.readline().decode()


def test_sigterm_while_waiting_for_ack_withdraws_every_route() -> None:
    env = dict(os.environ, PYTHONPATH=os.path.join(HERE, 'src'))
    argv = [sys.executable, '-m', 'exabgp.application.healthcheck', '--no-syslog', '--no-ip-setup']
    for ip in IPS:
        argv += ['--ip', ip]
    argv += ['--rise', '1', '--interval', '0.2']  # no --cmd: every check succeeds
    proc = subprocess.Popen(
        argv, stdin=subprocess.PIPE, stdout=subprocess.PIPE, stderr=subprocess.PIPE, env=env, bufsize=0
    )
    try:
        # first cycle: the three routes are announced and acknowledged
        for ip in IPS:
            line = _read_line(proc)
            assert line.startswith(f'peer * announce route {ip} '), line
            proc.stdin.write(b'done\n')

        # second cycle: the daemon is slow, the first announce is not acknowledged yet,
        # so the helper is blocked reading its stdin when it is told to stop
        line = _read_line(proc)
        assert line.startswith(f'peer * announce route {IPS[0]} '), line
        time.sleep(0.5)
        proc.send_signal(signal.SIGTERM)
        time.sleep(0.5)

        # now the daemon catches up and acknowledges everything it is sent
        written = []
        deadline = time.time() + 10
        while time.time() < deadline:
            ready, _, _ = select.select([proc.stdout], [], [], 0.2)
            try:
                proc.stdin.write(b'done\n')
            except (BrokenPipeError, OSError):
                pass
            if not ready:
                if proc.poll() is not None:
                    break
                continue
            data = proc.stdout.readline()
            if not data:
                break
            written.append(data.decode().strip())
        proc.wait(timeout=10)
    finally:
        if proc.poll() is None:
            proc.kill()
        stderr = proc.stderr.read().decode()

    withdrawn = [line.split()[4] for line in written if line.startswith('peer * withdraw route ')]
    assert sorted(withdrawn) == sorted(IPS), (
        f'routes withdrawn on SIGTERM: {withdrawn}, expected all of {IPS}\n'
        f'exit status {proc.returncode}\n--- helper stderr ---\n{stderr[-1500:]}'
    )
    assert proc.returncode == 0, stderr[-1500:]
