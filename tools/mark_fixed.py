#!/usr/bin/env python3
"""tools/mark_fixed.py <ID> <commit> <signature> [<signature> ...]
Marks open entries of known_findings.d/<ID>.json as fixed by <commit> (a fixed entry suppresses nothing)."""
import json, sys
pid, commit, sigs = sys.argv[1], sys.argv[2], sys.argv[3:]
path = f'/verif/known_findings.d/{pid}.json'
d = json.load(open(path))
done = set()
for e in d['findings']:
    if e['status'] == 'open' and e['signature'] in sigs:
        e['status'] = 'fixed'
        e['commit'] = commit
        e['line'] = f"fixed: property={pid} {commit} {e['what'][:200]}"
        done.add(e['signature'])
json.dump(d, open(path, 'w'), indent=1)
missing = [s for s in sigs if s not in done]
print('marked', len(done), 'missing', missing)
