#!/usr/bin/env python3
"""Hand-built FlowSpec members appended to corpus/c15/nlri.txt after the harvest (tools/harvest_c15.py does not know
them): NLRI lengths 239, 240, 241 (the one/two octet length boundary of RFC 8955 4.1), plain and flow-vpn.
Added after a seeded change (`lc <= 240` using the one-octet form) went unnoticed by the harvested corpus."""
def flow(k, j, rd=None):
    comp = bytes([0x01, 0x18, 0x0a, 0x00, 0x00])
    ops = [bytes([0x01, 80 + i]) for i in range(j)] + [bytes([0x11, (1000 + i) >> 8, (1000 + i) & 0xFF]) for i in range(k)]
    ops[-1] = bytes([ops[-1][0] | 0x80]) + ops[-1][1:]
    body = (rd or b'') + comp + bytes([0x05]) + b''.join(ops)
    n = len(body)
    pre = bytes([n]) if n < 240 else bytes([0xF0 | (n >> 8), n & 0xFF])
    return n, (pre + body).hex()
if __name__ == '__main__':
    rd = bytes([0, 0, 0xfd, 0xe8, 0, 0, 0, 1])
    for k, j in ((77, 1), (78, 0), (77, 2)):
        n, h = flow(k, j)
        print(f'1\t133\tA\t{h}\thand:rfc8955 nlri length {n} (boundary of the one/two octet length form)')
    for k, j in ((74, 2), (75, 0)):
        n, h = flow(k, j, rd)
        print(f'1\t134\tA\t{h}\thand:rfc8955 flow-vpn nlri length {n}')
