#!/usr/bin/env python3
"""Hand-built members appended to corpus/c15/nlri.txt after the harvest (tools/harvest_c15.py does not know
them): NLRI lengths 239, 240, 241 (the one/two octet length boundary of RFC 8955 4.1), plain and flow-vpn.
Added after a seeded change (`lc <= 240` using the one-octet form) went unnoticed by the harvested corpus."""
def flow(k, j, rd=None):
    comp = bytes([0x01, 0x18, 0x0a, 0x00, 0x00])
    ops = [bytes([0x01, 80 + i]) for i in range(j)] + [bytes([0x11, (1000 + i) >> 8, (1000 + i) & 0xFF]) for i in range(k)]
    ops[-1] = bytes([ops[-1][0] | 0x80]) + ops[-1][1:]
    body = (rd or b'') + comp + bytes([0x05]) + b''.join(ops)
    n = len(body)
    pre = bytes([n]) if n < 240 else bytes([0xF0 | (n >> 8), n & 0xFF])
    return n, (pre + body).hex()
def mup_partial_octet():
    """MUP ISD (type 1) and T1ST (type 3) routes whose prefix length is not a multiple of 8, in pairs that differ only
    in the bits of the last, partial octet.  Added after a seeded change (prefix read back with length // 8 octets) went
    unnoticed: every harvested and hand-built MUP prefix was /0, /24, /32, /48 or /128."""
    import ipaddress, struct
    rd = bytes([0, 0, 0xfd, 0xe8, 0, 0, 0, 1])
    out = []
    def pb(net):
        n = ipaddress.ip_network(net)
        return bytes([n.prefixlen]) + n.network_address.packed[:(n.prefixlen + 7) // 8]
    def add(afi, t, body, what):
        out.append(f'{afi}\t85\tA\t{(struct.pack("!BHB", 1, t, len(body)) + body).hex()}\thand:mup type{t} {what}')
    for afi, nets, ep in ((1, ('10.1.16.0/20', '10.1.32.0/20', '10.1.2.128/25', '10.1.2.0/25', '10.128.0.0/9', '10.0.0.0/9', '10.1.2.4/31'), '10.0.0.1'),
                          (2, ('2001:db8:0:8::/61', '2001:db8:0:10::/61', '2001:db8:8000::/33', '2001:db8::/33', '2001:db8::1:0/113'), '2001:db8::1')):
        e = ipaddress.ip_address(ep).packed
        for net in nets:
            add(afi, 1, rd + pb(net), f'isd {net}')
            add(afi, 3, rd + pb(net) + struct.pack('!LB', 12345, 9) + bytes([len(e) * 8]) + e, f't1st {net}')
    return out


if __name__ == '__main__':
    for line in mup_partial_octet():
        print(line)
    rd = bytes([0, 0, 0xfd, 0xe8, 0, 0, 0, 1])
    for k, j in ((77, 1), (78, 0), (77, 2)):
        n, h = flow(k, j)
        print(f'1\t133\tA\t{h}\thand:rfc8955 nlri length {n} (boundary of the one/two octet length form)')
    for k, j in ((74, 2), (75, 0)):
        n, h = flow(k, j, rd)
        print(f'1\t134\tA\t{h}\thand:rfc8955 flow-vpn nlri length {n}')
