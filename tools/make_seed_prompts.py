#!/usr/bin/env python3
"""Writes /tmp/seedprompts/<ID>.txt: the brief given to a fresh sub-agent that seeds a property-breaking change.
The agent gets only the property text and its own scratch worktree (/tmp/seed-<ID>), nothing from /verif."""
import json, os
props = {json.loads(l)['id']: json.loads(l) for l in open('/verif/properties.jsonl')}
os.makedirs('/tmp/seedprompts', exist_ok=True)
T = open('/verif/tools/seed_prompt_template.txt').read()
for pid, p in props.items():
    txt = T.format(id=pid, title=p['title'], statement=p['statement'], quant=p['quantifier']['text'], why=p['why_tests_cant'],
                   files=', '.join(p['anchors']['files']), mech='; '.join(m.get('name', '') + ' @ ' + m.get('where', '') for m in p['anchors']['mechanism']), wt=f'/tmp/seed-{pid}')
    open(f'/tmp/seedprompts/{pid}.txt', 'w').write(txt)
print('written', len(props))
