#!/bin/sh
# tools/refactor_matrix.sh <tree>...   -- every quick check against behaviour-preserving refactorings (scratch worktrees with the
# change applied): anything but exit 0 is a false alarm (exit 1) or a check that depends on a private name (exit 2)
cd /verif
export VERIF_BUDGET_S=${VERIF_BUDGET_S:-3000}
for T in "$@"; do
  for i in ${CHECKS:-01 02 03 04 05 06 07 08 09 10 11 12 13 14 15 16 17 18 19 20}; do
    VERIF_REPO_SRC=$T/src ./check C$i quick > /var/tmp/rm-$(basename $T)-C$i.log 2>&1; rc=$?
    echo "$(basename $T) C$i rc=$rc | $(grep -E '^C[0-9]+ quick:|HarnessError|Error' /var/tmp/rm-$(basename $T)-C$i.log | tail -1 | cut -c1-160)"
    [ $rc -ne 0 ] && grep -E "^VIOLATION|^  signature=|^HARNESS|Traceback|Error" /var/tmp/rm-$(basename $T)-C$i.log | head -6 | cut -c1-300
  done
done
rm -f /var/tmp/rm-refac-*-C*.log
