#!/venv/bin/python
"""Regenerate /verif/corpus/c03/seeds.txt, the frozen seed corpus of check C03.

    /venv/bin/python tools/harvest_c03.py [--check]

One line per seed:  <type> <hex body or '-'> <label>
label = <origin>/<name>@<validity>   validity:  ref:<sessions>  the strict reference decoder accepts it in those
                                                 sessions (0 asn4, 1 no-asn4, 2 asn4+add-path, 3 no-asn4+add-path)
                                                 rec:<sessions>  a message recorded by the upstream QA suite (uses a
                                                 family/attribute the reference decoder does not model): presumed valid
                                                 '-'             no claim (only used as a base for deviations)

Sources (nothing is taken from the ExaBGP encoders at run time, the file is frozen):
  * vt/checks/c02.py alphabets through the reference encoder (every K-th case per session, all EOR / near-EOR forms)
  * OPEN bodies from wire.encode_open with every capability of wire.py, plus hand-written capability TLVs
  * NOTIFICATION 1..7 x 0..11 (+ RFC 8203/9003 shutdown communication), ROUTE-REFRESH, KEEPALIVE, OPERATIONAL
  * /repo/qa/decoding/* and /repo/qa/encoding/*.ci recorded messages: greedy cover, shortest first, of every
    (AFI, SAFI), attribute code, extended-community type, BGP-LS / prefix-SID / tunnel-encap TLV type seen
--check compares the regenerated content with the file on disk and exits 1 when they differ.
"""

from __future__ import annotations

import glob
import os
import re
import struct
import sys

ROOT = os.path.dirname(os.path.dirname(os.path.abspath(__file__)))
sys.path.insert(0, ROOT)

from vt.ref import wire as w  # noqa: E402

OUT = os.path.join(ROOT, 'corpus', 'c03', 'seeds.txt')
QA = os.environ.get('VERIF_QA', '/repo/qa')
REF_FAMILIES = {(1, 1), (2, 1), (1, 4), (2, 4), (1, 128), (2, 128)}
AP_FAMS = [(1, 1), (2, 1), (1, 4), (1, 128)]
SESSIONS = [(True, False), (False, False), (True, True), (False, True)]  # (asn4, add-path) == c02.SESSIONS
UPDATE_EVERY = 263      # keep every 263rd c02 case of each session
MAX_C02_BIG = 1         # ... but only one body above 400 bytes per session (the 300-AS paths)
MAX_QA_BODY = 700       # recorded messages above this size are not used as deviation bases


# -- validity by the strict reference decoder -----------------------------------------------------
def mp_families(body: bytes):
    """(afi, safi) of every MP_REACH / MP_UNREACH of an UPDATE body, or None when the body does not even split."""
    try:
        wlen = struct.unpack('!H', body[:2])[0]
        alen = struct.unpack('!H', body[2 + wlen:4 + wlen])[0]
        attrs = w.walk_attrs(body[4 + wlen:4 + wlen + alen])
    except (w.RefError, struct.error):
        return None
    fams = set()
    for flags, code, value in attrs:
        if code in (w.MP_REACH, w.MP_UNREACH) and len(value) >= 3:
            fams.add((struct.unpack('!H', value[:2])[0], value[2]))
    return fams


REF_ATTRS = set(w.CANON_FLAGS)


def ref_valid_sessions(mtype: int, body: bytes) -> str:
    out = ''
    if mtype == w.UPDATE:
        fams = mp_families(body)
        if fams is None or not fams <= REF_FAMILIES:
            return ''
        for i, (asn4, ap) in enumerate(SESSIONS):
            try:
                u = w.decode_update(body, asn4, frozenset(AP_FAMS) if ap else frozenset())
            except (w.RefError, ValueError, struct.error):
                continue
            if w.is_eor(body) is None and not set(u['attrs']) <= REF_ATTRS | {0x99, 0x9A}:
                # carries an attribute the reference only sees as opaque bytes (e.g. prefix-SID): not confirmed by it
                continue
            out += str(i)
    elif mtype == w.OPEN:
        try:
            w.decode_open(body)
            out = '0123'
        except (w.RefError, ValueError, struct.error):
            pass
    return out


# -- sources ------------------------------------------------------------------------------------------
def seeds_c02():
    from vt.checks import c02

    out = []
    for sidx, s in enumerate(c02.SESSIONS):
        ap = set(c02.AP_FAMS) if s['addpath'] else set()
        big = 0
        for i, case in enumerate(c02.cases('quick', s)):
            if i % UPDATE_EVERY:
                continue
            body = c02.encode(case, s['asn4'], ap)
            if len(body) > 400:
                big += 1
                if big > MAX_C02_BIG:
                    continue
            out.append((w.UPDATE, body, f'c02/s{sidx}-case{i}'))
    for name, body, fam in c02.eor_cases():
        out.append((w.UPDATE, body, f'c02/{name}'))
    for name, body in c02.near_eor_cases():
        out.append((w.UPDATE, body, f'c02/near-eor-{name}'))
    return out


def cap_gr(flags_time: int, fams) -> tuple[int, bytes]:
    return (w.CAP_GR, struct.pack('!H', flags_time) + b''.join(struct.pack('!HBB', a, s, f) for a, s, f in fams))


def cap_hostname(host: bytes, domain: bytes) -> tuple[int, bytes]:
    return (w.CAP_HOSTNAME, bytes([len(host)]) + host + bytes([len(domain)]) + domain)


def cap_software(version: bytes) -> tuple[int, bytes]:
    return (0x4B, bytes([len(version)]) + version)


def seeds_open():
    out = []
    fam_caps = [w.cap_mp(a, s) for a, s in [(1, 1), (2, 1), (1, 128), (25, 70), (16388, 71), (1, 133)]]
    every = {
        'mp': w.cap_mp(1, 1),
        'mp-unknown-family': w.cap_mp(99, 99),
        'rr': (w.CAP_RR, b''),
        'rr-cisco': (w.CAP_RR_CISCO, b''),
        'err': (w.CAP_ERR, b''),
        'extnh': w.cap_ext_nh([(1, 1, 2), (1, 128, 2)]),
        'extmsg': (w.CAP_EXT_MSG, b''),
        'gr': cap_gr(0x8078, [(1, 1, 0x80), (2, 1, 0)]),
        'gr-nofamily': cap_gr(0x0000, []),
        'asn4': w.cap_asn4(4200000001),
        'addpath': w.cap_addpath([(1, 1, 3), (2, 1, 1), (1, 128, 2)]),
        'hostname': cap_hostname(b'router-1', b'example.net'),
        'hostname-utf8': cap_hostname('röter'.encode(), b''),
        'hostname-empty': cap_hostname(b'', b''),
        'software': cap_software(b'ExaBGP/5.0.0-verif'),
        'software-empty': cap_software(b''),
        'multisession': (0x44, b'\x00\x01'),
        'multisession-cisco': (0x83, b'\x00'),
        'operational': (0xB9, b''),
        'paths-limit': (0x4C, struct.pack('!HBH', 1, 1, 10) + struct.pack('!HBH', 2, 1, 0)),
        'link-local-nexthop': (0x4D, b''),
        'dynamic': (0x43, b''),
        'orf': (0x03, struct.pack('!HBBB', 1, 0, 1, 1) + bytes([64, 3])),
        'multiple-routes': (0x04, b''),
        'unknown-0xEE': (0xEE, b'\x01\x02\x03'),
        'unknown-empty': (0x7F, b''),
        'reserved-0': (0x00, b''),
    }
    out.append((w.OPEN, w.encode_open(65002, 180, '9.9.9.9', []), 'open/no-capability'))
    for name, cap in every.items():
        out.append((w.OPEN, w.encode_open(65002, 180, '9.9.9.9', [cap]), f'open/cap-{name}'))
    allcaps = fam_caps + [every[k] for k in ('rr', 'rr-cisco', 'err', 'extnh', 'extmsg', 'gr', 'asn4', 'addpath', 'hostname', 'software', 'multisession', 'operational', 'paths-limit', 'link-local-nexthop', 'unknown-0xEE')]
    for style in ('one-per-param', 'all-in-one', 'extended'):
        out.append((w.OPEN, w.encode_open(w.AS_TRANS, 90, '10.0.0.2', allcaps, style=style), f'open/all-{style}'))
    out.append((w.OPEN, w.encode_open_9072(65002, 180, '9.9.9.9', [every['mp'], every['asn4']], non_ext_len=7), 'open/9072-nonextlen7'))
    out.append((w.OPEN, w.encode_open(65002, 0, '9.9.9.9', [every['mp']]), 'open/hold0'))
    out.append((w.OPEN, w.encode_open(65002, 3, '9.9.9.9', [every['mp'], every['mp']]), 'open/hold3-dup-mp'))
    # two ASN4 / two add-path capabilities (RFC 5492: a capability may appear more than once)
    out.append((w.OPEN, w.encode_open(65002, 180, '9.9.9.9', [every['asn4'], every['asn4'], every['addpath'], every['addpath']]), 'open/dup-asn4-addpath'))
    # an optional parameter that is not a capability (type 1: authentication, deprecated) - refusable with 2/4
    base = w.encode_open(65002, 180, '9.9.9.9', [])
    out.append((w.OPEN, base[:9] + bytes([4, 1, 2, 0xAA, 0xBB]), 'open/param-type1@-'))
    return out


def seeds_other():
    out = []
    for code in range(1, 8):
        for sub in range(0, 12):
            out.append((w.NOTIFICATION, w.encode_notification(code, sub), f'notification/{code}-{sub}'))
    out.append((w.NOTIFICATION, w.encode_notification(2, 7, bytes([2, 6, 1, 4, 0, 1, 0, 1])), 'notification/2-7-capability-data'))
    out.append((w.NOTIFICATION, w.encode_notification(1, 2, b'\x00\x12'), 'notification/1-2-length-data'))
    out.append((w.NOTIFICATION, w.encode_notification(3, 5, bytes([0x40, 1, 2, 0, 0])), 'notification/3-5-attribute-data'))
    msg = 'maintenance — back at 03:00'.encode()
    for sub in (2, 4):
        out.append((w.NOTIFICATION, w.encode_notification(6, sub, bytes([len(msg)]) + msg), f'notification/6-{sub}-shutdown-utf8'))
        out.append((w.NOTIFICATION, w.encode_notification(6, sub, bytes([0])), f'notification/6-{sub}-shutdown-empty'))
        out.append((w.NOTIFICATION, w.encode_notification(6, sub, bytes([128]) + b'x' * 128), f'notification/6-{sub}-shutdown-128'))
        out.append((w.NOTIFICATION, w.encode_notification(6, sub, bytes([255]) + b'y' * 255), f'notification/6-{sub}-shutdown-255'))
        out.append((w.NOTIFICATION, w.encode_notification(6, sub, bytes([2, 0xC3, 0x28])), f'notification/6-{sub}-shutdown-bad-utf8'))
    out.append((w.NOTIFICATION, w.encode_notification(6, 1, struct.pack('!HBL', 1, 1, 1000)), 'notification/6-1-maxprefix-data'))
    out.append((w.NOTIFICATION, w.encode_notification(0, 0), 'notification/0-0'))
    out.append((w.NOTIFICATION, w.encode_notification(255, 255, bytes(range(32))), 'notification/255-255-data'))
    for sub in (0, 1, 2, 255):
        out.append((w.ROUTE_REFRESH, w.encode_route_refresh(1, 1, sub), f'refresh/ipv4-unicast-sub{sub}'))
    out.append((w.ROUTE_REFRESH, w.encode_route_refresh(2, 128, 0), 'refresh/ipv6-vpn'))
    out.append((w.ROUTE_REFRESH, w.encode_route_refresh(99, 99, 0), 'refresh/unknown-family'))
    out.append((w.KEEPALIVE, b'', 'keepalive/empty'))

    # OPERATIONAL (draft-ietf-idr-operational-message, message type 6 in ExaBGP): type(2) length(2) payload
    def op(what, payload):
        return struct.pack('!HH', what, len(payload)) + payload

    fam = struct.pack('!HB', 1, 1)
    rid_seq = bytes([9, 9, 9, 9]) + struct.pack('!L', 7)
    out.append((6, op(1, fam + b'hello operator'), 'operational/ADM'))
    out.append((6, op(2, fam + 'café'.encode()), 'operational/ASM-utf8'))
    out.append((6, op(1, fam), 'operational/ADM-empty'))
    for i, name in ((3, 'RPCQ'), (5, 'APCQ'), (7, 'LPCQ')):
        out.append((6, op(i, fam + rid_seq), f'operational/{name}'))
    for i, name in ((4, 'RPCP'), (6, 'APCP'), (8, 'LPCP')):
        out.append((6, op(i, fam + rid_seq + struct.pack('!L', 12345)), f'operational/{name}'))
    out.append((6, op(9, b''), 'operational/SSQ-unregistered'))
    out.append((6, op(0xFFFF, fam + rid_seq + struct.pack('!H', 1)), 'operational/NS-malformed'))
    out.append((6, op(0xFFFE, fam), 'operational/MP'))
    out.append((6, op(0, b''), 'operational/NOP-0'))
    return out


HEX = re.compile(r'[^0-9A-Fa-f]')


def _split_raw(text: str):
    """hex text of a whole message (marker + header + body) or of a bare UPDATE body -> (type, body) or None"""
    try:
        raw = bytes.fromhex(HEX.sub('', text))
    except ValueError:
        return None
    if raw[:16] == w.MARKER and len(raw) >= 19:
        length, mtype = struct.unpack('!HB', raw[16:19])
        if length != len(raw):
            return None
        return mtype, raw[19:]
    return None


def qa_messages():
    out = []
    for path in sorted(glob.glob(os.path.join(QA, 'encoding', '*.ci'))):
        base = os.path.basename(path)[:-3]
        n = 0
        with open(path) as f:
            for line in f:
                if ':raw:' not in line:
                    continue
                m = _split_raw(line.split(':raw:', 1)[1])
                if m is None:
                    continue
                n += 1
                out.append((m[0], m[1], f'qa-encoding/{base}-{n}'))
    for path in sorted(glob.glob(os.path.join(QA, 'decoding', '*'))):
        base = os.path.basename(path)
        with open(path) as f:
            lines = f.read().split('\n')
        if len(lines) < 2:
            continue
        kind = lines[0].split()
        m = _split_raw(lines[1])
        if m is not None:
            out.append((m[0], m[1], f'qa-decoding/{base}'))
            continue
        try:
            raw = bytes.fromhex(HEX.sub('', lines[1]))
        except ValueError:
            continue
        if kind and kind[0] == 'update':
            out.append((w.UPDATE, raw, f'qa-decoding/{base}'))
        elif kind and kind[0] == 'nlri':
            # a bare BGP-LS NLRI: carried in an MP_REACH_NLRI (AFI 16388, SAFI 71, IPv4 next hop) of an otherwise plain UPDATE
            mp = struct.pack('!HBB', 16388, 71, 4) + bytes([10, 0, 0, 1]) + b'\x00' + raw
            attrs = [w.encode_attr(w.ORIGIN, b'\x00'), w.encode_attr(w.AS_PATH, b''), w.encode_attr(w.LOCAL_PREF, struct.pack('!L', 100)), w.encode_attr(w.MP_REACH, mp)]
            out.append((w.UPDATE, w.encode_update(attrs=attrs), f'qa-decoding/{base}-wrapped'))
    return out


def _tlvs(data: bytes, tsize: int, lsize: int):
    pos = 0
    while pos + tsize + lsize <= len(data):
        t = int.from_bytes(data[pos:pos + tsize], 'big')
        ln = int.from_bytes(data[pos + tsize:pos + tsize + lsize], 'big')
        pos += tsize + lsize
        yield t, data[pos:pos + ln]
        pos += ln


def features(mtype: int, body: bytes):
    """What a recorded message exercises (our own TLV walk; only used to choose a small covering subset)."""
    feats = {('type', mtype)}
    if mtype == w.OPEN:
        try:
            for code, v in w.decode_open(body)['caps']:
                feats.add(('cap', code))
        except w.RefError:
            pass
        return feats
    if mtype != w.UPDATE or len(body) < 4:
        return feats
    try:
        wlen = struct.unpack('!H', body[:2])[0]
        alen = struct.unpack('!H', body[2 + wlen:4 + wlen])[0]
        attrs = w.walk_attrs(body[4 + wlen:4 + wlen + alen])
    except (w.RefError, struct.error):
        return feats
    if wlen:
        feats.add(('withdrawn',))
    if len(body) > 4 + wlen + alen:
        feats.add(('nlri',))
    for flags, code, value in attrs:
        feats.add(('attr', code))
        if flags & w.F_EXTLEN:
            feats.add(('extlen', code))
        if code in (w.MP_REACH, w.MP_UNREACH) and len(value) >= 3:
            afi, safi = struct.unpack('!H', value[:2])[0], value[2]
            feats.add(('family', code, afi, safi))
            if code == w.MP_REACH and len(value) >= 4:
                feats.add(('nhlen', afi, safi, value[3]))
                nl = value[4 + value[3] + 1:]
            else:
                nl = value[3:]
            if afi == 16388:
                for t, v in _tlvs(nl, 2, 2):
                    feats.add(('ls-nlri', t))
                    for t2, v2 in _tlvs(v[9:] if t in (1, 2, 3, 4) else v, 2, 2):
                        feats.add(('ls-desc', t2))
                        for t3, _ in _tlvs(v2, 2, 2):
                            feats.add(('ls-subdesc', t3))
            elif (afi, safi) == (25, 70) and nl:
                pos = 0
                while pos + 2 <= len(nl):
                    feats.add(('evpn', nl[pos]))
                    pos += 2 + nl[pos + 1]
            elif safi in (133, 134) and nl:
                feats.add(('flow-first-component', nl[1] if nl[0] < 0xF0 and len(nl) > 1 else (nl[2] if len(nl) > 2 else -1)))
            elif safi in (5, 85, 73) and nl:
                feats.add(('nlri-route-type', safi, nl[0], nl[1] if len(nl) > 1 else -1))
        elif code == w.EXT_COMMUNITIES:
            for i in range(0, len(value) - 7, 8):
                feats.add(('extcomm', value[i], value[i + 1]))
        elif code == 25:
            for i in range(0, len(value) - 19, 20):
                feats.add(('extcomm6', value[i], value[i + 1]))
        elif code == 29:
            for t, v in _tlvs(value, 2, 2):
                feats.add(('ls-attr', t))
        elif code == 40:
            for t, v in _tlvs(value, 1, 2):
                feats.add(('prefix-sid', t))
                if t in (5, 6) and len(v) > 1:
                    for t2, v2 in _tlvs(v[1:], 1, 2):
                        feats.add(('srv6-sub', t2))
        elif code == 23:
            for t, v in _tlvs(value, 2, 2):
                feats.add(('tunnel', t))
                for t2, _ in _tlvs(v, 1, 1):
                    feats.add(('tunnel-sub', t2))
        elif code == 22:
            feats.add(('pmsi', value[1] if len(value) > 1 else -1))
    return feats


def seeds_qa():
    msgs = qa_messages()
    seen = set()
    uniq = []
    for mtype, body, name in msgs:
        if (mtype, body) in seen:
            continue
        seen.add((mtype, body))
        uniq.append((mtype, body, name))
    uniq.sort(key=lambda m: (len(m[1]), m[2]))
    covered = set()
    out = []
    skipped_big = 0
    for mtype, body, name in uniq:
        f = features(mtype, body)
        if f <= covered:
            continue
        if len(body) > MAX_QA_BODY:
            skipped_big += 1
            continue
        covered |= f
        out.append((mtype, body, name))
    return out, len(msgs), len(uniq), skipped_big, len(covered)


def build():
    seeds = []
    seen = {}
    stats = {}

    def add(group, items, default_validity=None):
        n = 0
        for mtype, body, label in items:
            key = (mtype, bytes(body))
            if key in seen:
                continue
            if '@' in label:
                label, validity = label.split('@')
            else:
                ref = ref_valid_sessions(mtype, body)
                if ref:
                    validity = 'ref:' + ref
                elif default_validity:
                    validity = default_validity
                else:
                    validity = '-'
            seen[key] = label
            seeds.append((mtype, bytes(body), f'{label}@{validity}'))
            n += 1
        stats[group] = n

    add('c02', seeds_c02())
    add('open', seeds_open())
    add('other', seeds_other(), 'rec:0123')
    qa, nraw, nuniq, nbig, ncov = seeds_qa()
    add('qa', qa, 'rec:0')
    stats['qa_recorded_messages'] = nraw
    stats['qa_distinct'] = nuniq
    stats['qa_skipped_too_big'] = nbig
    stats['qa_features_covered'] = ncov
    return seeds, stats


def render(seeds) -> str:
    lines = ['# C03 seed corpus - generated by tools/harvest_c03.py - <type> <hex body or -> <label>@<validity>']
    for mtype, body, label in seeds:
        lines.append(f'{mtype} {body.hex() or "-"} {label}')
    return '\n'.join(lines) + '\n'


def main(argv):
    seeds, stats = build()
    text = render(seeds)
    if '--check' in argv:
        with open(OUT) as f:
            same = f.read() == text
        print('seed file is up to date' if same else 'seed file DIFFERS from what the sources give now')
        return 0 if same else 1
    os.makedirs(os.path.dirname(OUT), exist_ok=True)
    with open(OUT, 'w') as f:
        f.write(text)
    sizes = sorted(len(b) for _, b, _ in seeds)
    print(f'{len(seeds)} seeds written to {OUT}: {stats}; body bytes total {sum(sizes)} median {sizes[len(sizes) // 2]} max {sizes[-1]}')
    return 0


if __name__ == '__main__':
    sys.exit(main(sys.argv[1:]))
