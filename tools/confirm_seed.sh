#!/bin/sh
# tools/confirm_seed.sh <seed-dir> <property-id> [name]
# Confirms a seeded change: applies <seed-dir>/patch.diff to a fresh scratch worktree of /repo, runs the repository
# suite (must match the baseline), runs the demonstration with and without the change, then runs our check against
# the changed tree (VERIF_REPO_SRC).  Prints a summary; leaves nothing behind.
SEED=$1; ID=$2; NAME=${3:-$ID}
WT=/tmp/confirm-$NAME
git -C /repo worktree remove --force $WT >/dev/null 2>&1
git -C /repo worktree add -q $WT HEAD || exit 2
cd $WT || exit 2
git apply $SEED/patch.diff || { echo "PATCH-DOES-NOT-APPLY"; git -C /repo worktree remove --force $WT; exit 2; }
cp $SEED/demo_*.py $WT/ 2>/dev/null
echo "== suite with the change"
PYTHONPATH=$WT/src env -u EXABGP_VERIF /venv/bin/python -m pytest -q -p no:cacheprovider --timeout=900 --continue-on-collection-errors -x --deselect tests/unit/test_gates_are_wired.py::test_a_clean_tree_exits_zero 2>&1 | tail -2
echo "== demo with the change (must fail)"
PYTHONPATH=$WT/src /venv/bin/python -m pytest -q -p no:cacheprovider demo_*.py 2>&1 | tail -2
git apply -R $SEED/patch.diff   # (git stash is shared between worktrees: never use it here)
echo "== demo without the change (must pass)"
PYTHONPATH=$WT/src /venv/bin/python -m pytest -q -p no:cacheprovider demo_*.py 2>&1 | tail -2
git apply $SEED/patch.diff
echo "== our check against the changed tree"
cd /verif
for tier in quick; do
  VERIF_REPO_SRC=$WT/src ./check $ID $tier > /tmp/confirm-$NAME.log 2>&1; rc=$?
  echo "check $ID $tier exit=$rc"; grep -E "^VIOLATION|^  signature=" /tmp/confirm-$NAME.log | head -6 | cut -c1-300; tail -1 /tmp/confirm-$NAME.log | cut -c1-200
done
git -C /repo worktree remove --force $WT
rm -f /tmp/confirm-$NAME.log
