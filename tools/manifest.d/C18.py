CHECKS['C18'] = dict(
    engine='E-in',
    design_ref='DESIGN.md 4 C18',
    technique='bounded exhaustive input enumeration: every single deviation (and every pair of deviations on different keywords) from a valid base definition of each route grammar, '
              'with values at and beyond every numeric and length boundary, offered to the real API parsers, the real announce callbacks and Configuration.reload(); every accepted '
              'definition encoded by the real UPDATE generator under 16 negotiated sessions and decoded by an independent RFC reference decoder',
    text='9 grammars (static route IPv4 / IPv6, `attributes ... nlri`, flow, vpls, `announce ipv4 unicast / nlri-mpls / mpls-vpn`, `announce ipv6 unicast`) with a valid base definition each and '
         '92-361 deviations per grammar (2228 in all): for every keyword the values -1, 0, 1, max-1, max, max+1, 2^16-1, 2^16, 2^32-1, 2^32, 2^64, non-numeric, missing value, hexadecimal form; '
         'list lengths 0, 1, 2, 255, 256, 1000 and larger than a 4096-octet / any message; masks 0..129 for both address families; label 0..2^20 and stacks up to the NLRI length octet; every RD form '
         'with the number at both ends and beyond; keyword given twice; unknown keyword; unclosed / mismatched / stray brackets, stray terminators, quotes, comments. Each deviation alone through three '
         'entry points (API.api_route/api_attributes/api_flow/api_vpls/api_announce_v4/v6 as the callbacks call them; API.process -> dispatch -> real announce_* callback with a stub reactor, reply '
         'observed; a full neighbor configuration file through Configuration.reload(), flat and nested forms), and every pair of deviations on different keywords (quick: static route and flow on the api path, '
         'thorough: 11 grammar/path/form combinations, both textual orders for the static route). Oracle: refused with a message (located, for a configuration) or accepted; no exception other than the '
         'ValueError/IndexError the callbacks answer `error` for by name, no endless loop (CPU-time alarm); an accepted definition encodes under every session without raising and the decoded NLRI, '
         'next hop and attributes equal the values computed from the text; values the wire format holds are accepted, values it cannot hold are refused. Plus all 81 ordered pairs of 9 route shapes '
         'in one Adj-RIB-Out (api and configuration), and every one of the 9 shapes parsed by the same API object right after a refused definition (nested with a bad value, nested with an unknown keyword, flat with a bad list): it must come out with its own route and nothing else.',
    note='Trusted: vt/ref/wire.py, vt/ref/flowvpls.py (RFC 8955/8956 flow NLRI, RFC 4761 VPLS NLRI, RFC 8669 Prefix-SID; golden vectors from the RFC examples run at start), the expected values in '
         'vt/checks/c18_tables.py. Tolerances: C01 tolerances; a keyword given twice may send either value; an attribute set too large for the negotiated message size may be accepted and not sent; '
         'ValueError/IndexError from API.api_* and ValueError / configuration Error reported by reload() are refusals. Outside: triples of deviations; flow components other than destination, source, '
         'port (C16 covers flow); sr-policy, mup, mvpn, evpn grammars; withdraw commands; IPv6 transport sessions.',
)
