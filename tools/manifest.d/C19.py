CHECKS['C19'] = dict(
    engine='E-seq',
    design_ref='DESIGN.md 4 C19',
    technique='explicit-state exploration over message histories on several live sessions, differential against the same message decoded alone in a fresh interpreter, canonical process-state dedup',
    text='Four real Negotiated sessions (ASN4, 2-byte AS, ADD-PATH receive, ipv4+ipv6 with extended message) and an OPEN pseudo-session live in one '
         'process; a letter is (session, message) over 13 reference-encoded UPDATE bodies built to collide on every piece of process-wide state '
         '(same attribute bytes with session-dependent meaning, treat-as-withdraw, AS4_PATH merge, AGGREGATOR/AS4_AGGREGATOR, repeated communities, '
         'EXTENDED_COMMUNITIES twice, EORs, MP_REACH, unknown attribute, ADD-PATH-ambiguous NLRI) and 3 OPEN bodies (55 letters). Every sequence of length '
         '<=3 (quick; <=4 with Attribute.caching on in thorough), with Attribute.caching on and off, is run from a reset process through Message.unpack, the '
         'real JSON and text API encoders and UpdateHandler on the Adj-RIB-In; then BFS with one representative per canonical process-wide state to depth 4 (quick) / '
         'until the frontier is empty (thorough: 2180 states, closed at depth 8). '
         'Oracle: the last letter must give exactly what it gives alone in a fresh interpreter (one subprocess per letter and caching mode, cross-checked '
         'against the in-process reset), earlier returned objects rendered again at the end must be unchanged, and every Adj-RIB-In must equal a dict model '
         'folded from the alone effects. Process-wide state is found by a reflective scan of all loaded exabgp modules plus a calibration run, not listed by hand. '
         'Exhaustive inside the bound: the right level for a property that quantifies over histories on shared caches. The alphabet holds a withdrawal that carries the shared attribute block (no NLRI field).',
    note='Trusted: vt/ref/wire.py encoder; the alphabet; the reflective scan (module globals/class attributes, depth 4) as the definition of process-wide state '
         '(any other root changing aborts the run); prefix checkpointing (every 97th prefix is re-executed sequence by sequence from a reset and compared).',
)
