CHECKS['C15'] = dict(
    engine='E-in',
    design_ref='DESIGN.md 4 C15',
    technique='bounded exhaustive enumeration over a frozen input alphabet (text lines and hex strings under corpus/c15, rebuilt into objects by the tree under test at every run), pairwise-exhaustive for the index/hash contract',
    text='The alphabet is frozen once by tools/harvest_c15.py: every API command of qa/encoding/*.ci and every example configuration holding a route (text), '
         'every NLRI and path attribute inside the recorded messages of qa/decoding and qa/encoding (split with vt/ref/wire.py and per-family RFC framing), '
         'and hand-built boundary members (reference encoder for the 8 IP families: masks 0/1/7/8/9/.../max, 1-3 labels, RD types 0/1/2; RFC layouts '
         'transcribed for EVPN 1-5, VPLS, RTC, MVPN, MUP (incl. prefix lengths that are not a multiple of 8, in pairs differing only in the last partial octet), SR-policy, BGP-LS 1-6 and its VPN form, FlowSpec, and for every extended-community sub-type, '
         'PMSI tunnel type, AIGP, prefix-SID, tunnel-encap sub-TLV, BGP-LS attribute TLV). Every registered (AFI, SAFI) (23) and attribute code (22) has '
         'an alphabet; those with fewer than 6 members are named in the evidence. On every member x path identifier {none, 0, 1 (thorough: 2, 2^32-1)} for '
         'the 8 families that carry one x ASN4 on/off for attributes: (1) bytes -> NLRI.unpack_nlri / AttributeCollection.unpack -> pack == the bytes, '
         'unpack(pack(o)) == o with the same index and hash, pack idempotent; (2) text -> Route -> pack -> unpack -> equal object, same index, hash, bytes '
         'and renderings, for the NLRI, each attribute and the whole UPDATE (check_generation path); (3) json()/str()/extensive() identical in forward '
         'order, reverse order and with the attribute caches on and pre-filled, json() valid once wrapped as the encoder wraps it; (4) on every ordered '
         'pair of a family alphabet: a == b => same index() and hash(), == symmetric and consistent with !=, members whose path id, RD or prefix (read from '
         'the bytes by the RFC layout) differ never share nlri.index() nor Route.index(); one table across families for index collisions between families. '
         'Exhaustive over the frozen alphabet, which is the right level for per-type codecs whose defects are per type, not per value. Law 5: every NLRI member against each of its one-octet neighbours (each octet, lowest and highest bit flipped) that decodes and packs back: a different RFC key means a different nlri.index() and Route.index(). JSON of attributes and NLRI is read strictly (no duplicate key, no NaN / Infinity tokens).',
    note='Trusted: vt/ref/wire.py for the IP families; the hand-transcribed RFC layouts in tools/harvest_c15.py and ref_key() in vt/checks/c15.py. Tolerated: '
         'labels never enter the key (RFC 8277), the label field of a withdrawn labeled NLRI (weak law only), attribute order in a re-encoded UPDATE, the PARTIAL '
         'bit on unknown attributes, None vs 0 path identifier, generic-attribute text for a known code. Outside: families ignore ADD-PATH symmetrically (15 of 23), '
         'FlowSpec semantics (C16), values not in the alphabet.',
)
