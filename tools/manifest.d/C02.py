CHECKS['C02'] = dict(
    engine='E-in',
    design_ref='DESIGN.md 4 C02',
    technique='exhaustive small-scope enumeration of well-formed UPDATEs (structure x attributes x encodings x sessions) rendered by an independent RFC reference encoder, through the real decoder, JSON encoder and Adj-RIB-In',
    text='4 sessions (ASN4 on/off x ADD-PATH receive on/off) x ~320 UPDATE structures (withdrawn, NLRI, MP_REACH incl. 32-byte next hops, labeled, VPN, IPv4-over-IPv6, MP_UNREACH; same prefix with two path ids) x every single optional attribute value; '
         'for core structures every pair (thorough: triple; thorough also every pair on every structure) of optional attributes, every AS path shape x ORIGIN, 12 AS_PATH/AS4_PATH pairs, every order of 3 attributes, rotations, extended length, partial bit; every EOR form. '
         'The bytes come from vt/ref/wire.py (whose strict decoder is asserted to agree), go through Message.unpack, Response.JSON.update and UpdateHandler into a pre-loaded Adj-RIB-In, and the canonicalised JSON and table are compared with the abstract UPDATE.',
    note='Trusted: vt/ref/wire.py encoder/decoder and merge_as4 (both hop-count and AS-count readings accepted). JSON spelling canonicalised; link-local half of a 32-byte next hop may be omitted. Outside: BGP-LS/EVPN/FlowSpec payloads (C15/C16), >2 NLRIs per section.',
)
