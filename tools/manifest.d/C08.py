CHECKS['C08'] = dict(
    engine='E-in',
    design_ref='DESIGN.md 4 C08',
    technique='exhaustive single-fault neighbourhood: every attribute of a full well-formed UPDATE x every corruption kind x 3 positions x 5 seeds x 2 sessions, through the real Protocol.read_message (API JSON) and UpdateHandler (Adj-RIB-In); RFC 7606 allowed-outcome oracle',
    text='Seeds built by the reference encoder carry all 13 recognised attributes (+ MP_REACH) with IPv4 NLRI, MP_REACH IPv6 NLRI, both, labeled routes in MP_REACH, or IPv4 NLRI next to VPN routes in MP_REACH. Each attribute in turn, moved first / kept / moved last, gets every corruption: length-1, length+1, zero length, declared length overrunning the block, '
         'swallowing the next attribute, optional or transitive flag flipped, 30 RFC-named invalid values, duplicate, extended-length flag lie (about 2400 malformed UPDATEs, complete for this neighbourhood). The UPDATE is read by the real Protocol.read_message on an in-memory socket; '
         'allowed outcomes: nothing announced (withdrawn / dropped), session reset with 3/x, or - only for ATOMIC_AGGREGATE, AGGREGATOR, AS4_AGGREGATOR - announced with exactly that attribute absent and every other value as sent.',
    note='Trusted: reference encoder; RFC 7606 class table in the check. Outside: two simultaneous corruptions, attributes not in the seed (BGP-LS, PMSI, ...: their decoders are exercised by C03).',
)
