CHECKS['C17'] = dict(
    engine='E-seq',
    design_ref='DESIGN.md 4 C17',
    technique='exhaustive enumeration of (old configuration, new configuration) pairs x session up/down x API state x neighbor-level change, and of every single-line fault of the new file, through the real SIGUSR1 reload path of the reactor under a virtual loop; reference peer table and deep-snapshot oracles',
    text='Successful reloads: all 256 pairs over {A absent / 2 attribute sets / other next hop} x {B} x {IPv6 C} with the session established (thorough: also down, with an API route announced or announced-then-withdrawn, and with hold-time change, neighbor added, neighbor removed for every pair; quick: subsets of those). '
         'The peer table rebuilt from every UPDATE on the wire must equal the new configuration plus live API routes. Failing reloads: every non-empty line of the new file replaced in turn by a garbage token, an unbalanced brace, or a value that raises struct.error in a value parser, plus a missing file, session up and down; the same faults when the running configuration has no helper program and the refused file defines one, and when the refused file turns adj-rib-out off and fails in a later neighbor section: '
         'neighbors, processes, helper programs started, per-peer neighbor identity and settings, Adj-RIB-Out cache and queues, FSM and connections must be identical before and after, nothing of the refused file may reach the peer, and a following API announce must be acknowledged and sent.',
    note='Trusted: virtual loop, vt/ref/wire.PeerTable, the snapshot projection. Outside: family or capability changes across a reload, several processes, template inheritance.',
)
