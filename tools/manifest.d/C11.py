CHECKS['C11'] = dict(
    engine='E-dev',
    design_ref='DESIGN.md 4 C11',
    technique='exhaustive crash-point enumeration (cut after every emitted message, EOF, RST) x bounded API operation histories placed before/while/after the outage, on the real reactor under a virtual loop; reference peer table built from the next session',
    text='In the full virtual world the first session is lost at every point: during establishment, after each of the k-th written message for every k up to past the end of the initial batch (batches of 2, 25, 26 messages quick; 24 and 51 thorough, '
         'crossing the 25-per-iteration slicing), by EOF or RST when idle; with adj-rib-out kept (with and without group-updates) or not, the second session lost again during its establishment or inside its own batch. Histories of <=2 (thorough 3) real API commands are placed before the cut, while down and at re-establishment. '
         'Every UPDATE of the next session is applied to an empty reference peer table: at quiescence the table must equal configured routes plus live API routes (nothing withdrawn while down), there must be exactly one End-of-RIB per negotiated family and none before the routes of the initial table. The runs without adj-rib-out disable route-refresh (which would force the Adj-RIB-Out back on) and assert the cache flag of the RIB; in that mode the configured routes must come back, as the API left them or as configured.',
    note='Trusted: virtual loop, vt/ref/wire.PeerTable. A lost connection is modelled as EOF/RST on read or every further write failing. Outside: histories longer than the bound, several peers.',
)
