CHECKS['C14'] = dict(
    engine='E-seq',
    design_ref='DESIGN.md 4 C14',
    technique='exhaustive enumeration of command sequences x pipe chunkings and of selector forms x term combinations, through the real child-pipe reader, dispatcher, command handlers and RIBs of a four-neighbor reactor under a virtual loop; sequential reference model',
    text='Full virtual world with four neighbors differing in address, local AS, peer AS and router-id (every value of the fourth extends the corresponding value of the first as a string) and one API child. (A) every sequence of <= 2 commands (thorough: 3) over 12 commands (valid announces/withdraws to all or one peer, IPv6, out-of-range value, bad mask, missing next hop, unknown verb, selector matching nobody, eor, flush, ping), '
         'in API v6 and v4 syntax, written to the pipe coalesced, with every single cut (thorough: every pair) and byte by byte; the commands seen by API.process must be the lines written, in order; the reply stream must hold exactly one terminal done/error per command in command order; '
         'every neighbor Adj-RIB-Out must equal what the accepted commands say and refused commands must change nothing. (B) every selector: 7 address forms (one truncated) x every subset of {local-as, peer-as, router-id} x 4 values (one only the beginning of values in use), plain, bracket and two-element bracket lists: exactly the neighbors matching every term change.',
    note='Trusted: virtual loop and pipe plumbing, the reference model in the check. Sessions are not established (RIB effects are read from the real OutgoingRIB objects). Outside: group start/end batches, sync mode, several API processes.',
)
