CHECKS['C10'] = dict(
    engine='E-dev',
    design_ref='DESIGN.md 4 C10',
    technique='exhaustive fault-class x session-state injection (one fault per run, alone and after every benign earlier deviation; thorough: after two) on the real reactor under a virtual event loop; framing oracle on the bytes written until close',
    text='49 fault kinds (header, OPEN incl. UTF-8 host name / software version, UPDATE, ROUTE-REFRESH, unexpected and unregistered types, 4 received NOTIFICATIONs, hold-timer silence, 3 API teardowns, and a NOTIFICATION of the peer crossing a local teardown in 4 orders) are each injected at every macro step of a 12-step '
         'session script - i.e. in every session state where they can occur - with hold time 9 and 0, with adj-rib-in off and with local-as auto (the OPEN of the peer read before ours is sent), alone and (hold time 9; thorough: every configuration, and after two of them) after one earlier benign deviation at every earlier step (next message split in two, API announce in flight, one second of idle time), on the real Reactor/Peer/Protocol. For each run the messages ExaBGP wrote on that connection are framed by the reference framer: '
         'at most one NOTIFICATION, nothing after it, connection closed after it, code/subcode inside the RFC set for (fault class, state), and no NOTIFICATION in answer to a NOTIFICATION (for the crossing cases: ours is never written after the read that completed the one of the peer).',
    note='Trusted: virtual loop and reference framer. A malformed message whose type is also unexpected in the state may be answered with either class; RFC 7606 attribute errors may legally not reset. Sessions ExaBGP chooses not to end are outside this property.',
)
