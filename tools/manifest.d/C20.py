CHECKS['C20'] = dict(
    engine='E-seq',
    design_ref='DESIGN.md 4 C20',
    technique='bounded exhaustive enumeration of every check-result/disable-file sequence to a length bound x a fixed configuration list on the real healthcheck loop(), '
              'rise/fall counter reference automaton, every written line executed by the real daemon-side API and decoded from wire bytes by the reference codec',
    text='Every sequence over {ok, fail, disabled} of every length 1..8 (quick) / 1..11 (thorough) is run, each as its own execution ended by a stop request '
         '(KeyboardInterrupt or the SIGTERM handler loop() installed), against 68 configurations (rise, fall in {1,2,3} x withdraw-on-down x debounce in full; metrics, '
         'increase, 1-2 IPs, IPv6, community / disabled-community / extended / large, as-path global and per state, local-preference, next-hop, path-id, neighbors '
         'none/one/two/*, no-ack, no disable file, one-shot interval 0, dynamic ip, execute hooks) on the real exabgp.application.healthcheck.loop() with options from the real parse(); '
         'only the module\'s environment (check result, disable file, sleep, stdout/stdin, signal, ip setup, subprocess) is rebound. vt/ref/hysteresis.py (two run-length counters) decides per round '
         'which posture changes are justified (up only on >= rise consecutive successes, down/withdraw only on >= fall consecutive failures, nothing on a single contrary result) and which are due, '
         'and that every announced route is withdrawn at exit. Each distinct line goes through formated() -> API.process -> dispatch_v6 and dispatch_v4 -> handler -> Configuration -> OutgoingRIB -> '
         'UpdateCollection.messages(); the bytes decoded by vt/ref/wire.py must show on exactly the selected peers exactly the MED, communities, AS path, next hop, local preference and path id '
         'configured for one of the three states. Exhaustive inside the bound, which is the right level for a six-state counter automaton whose behaviour is periodic well inside length 8. For the sequences of length <= 4 (thorough 6) the stop request (Ctrl-C or SIGTERM, by configuration) also comes inside the last round: as it begins, right after each line written, and while the helper waits for the acknowledgement of each line (a signal handler that reads the stream its interrupted frame is reading gets the RuntimeError CPython raises). Three configurations sit at the ends of the 32-bit fields (MED, LOCAL_PREF, path identifier, AS number).',
    note='Trusted: vt/ref/hysteresis.py, vt/ref/wire.py, the stub reactor (peers(), processes answers, immediate scheduling). Outside: main() (ip discovery, --start-ip, deaggregation, privileges), '
         'check() itself (subprocess/timeout), real timing of interval/fast-interval, mixed-family ip lists, sequences longer than the bound, rise/fall > 3.',
)
