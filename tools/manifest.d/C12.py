CHECKS['C12'] = dict(
    engine='E-dev',
    design_ref='DESIGN.md 4 C12',
    technique='exhaustive enumeration of peer arrival-time vectors (<=k sends on a 1 s grid over 3H+5 s) against the real reactor under a controller-owned virtual clock; deadline oracle on the timestamps of written KEEPALIVE/NOTIFICATION bytes',
    text='The real reactor is established under a virtual clock for negotiated hold times {3, 9, 0} and the default 180 on a coarse grid (quick; + 4, 30, 3600 and 65535 thorough; ours x theirs so that min() is exercised, two sub-second phases), then every arrival vector with <=k '
         'KEEPALIVE/UPDATE sends (k=3 for H=3, k=2 for H=9 quick; k=3-4 thorough), 30-UPDATE bursts, uninterrupted inbound streams of one UPDATE per 50 / 90 ms lasting H/3+1.5 s and H+1.5 s (every 100 ms read slice of the session loop finds a message), a 200-route outbound batch, the same on a local-as auto session, a withheld OPEN and a withheld confirming KEEPALIVE are run. '
         'Checked: 4/0 and close within H + 2.2 s of the last receipt, never before H, KEEPALIVE gaps <= H/3 + 1.2 s, nothing periodic with H=0, 5/1 after openwait.',
    note='Trusted: virtual loop/clock seams (module-level time rebinding). Allowance 2 s (integer-second timers) + 0.2 s (loop period). Outside: hold times of hours, real scheduler latency.',
)
