CHECKS['C06'] = dict(
    engine='E-in',
    design_ref='DESIGN.md 4 C06',
    technique='exhaustive enumeration of (message stream x TCP segmentation x inter-segment delay) against the real Connection.reader_async/reader and an ESTABLISHED Peer._main under a virtual loop; reference framer oracle',
    text='A: every stream of <=2 messages over a 23-message alphabet (7 valid incl. a maximum-size UPDATE, 16 header faults incl. bare 19-octet headers of types that need a body) x every segmentation with <=2 cuts at all header and body-boundary offsets (thorough: also <=4 cuts for single messages, <=3 cuts for pairs and <=1 cut for triples over an 8-message core alphabet), '
         'all uniform chunk sizes 1..32 and coalesced, for both maximum sizes, through both reader implementations; B: 11 streams x cuts x every delay vector over {0, 0.15 s} fed to an established session in the full virtual world (also one where ExaBGP mirrors the AS of the peer and so sends its OPEN second, and sessions where extended messages are advertised by one side only: the limit stays 4096) '
         '(reads are wrapped in a 0.1 s timeout there). Oracle: same messages/bodies/order as the reference framer; first header fault answered 1/1, 1/2 or 1/3 and nothing after it interpreted.',
    note='Trusted: vt/ref/wire.split_stream; a read returns at most one queued segment. Outside: streams of more than 3 messages, kernel coalescing not expressible as cut lists.',
)
