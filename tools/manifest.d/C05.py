CHECKS['C05'] = dict(
    engine='E-dev',
    design_ref='DESIGN.md 4 C05',
    technique='stateless deviation-bounded exploration (<=k faults/unexpected events per run) of the real reactor, Peer and Protocol under a virtual event loop; RFC 4271 transition relation and wire/close/up-down monitors on every trace',
    text='The real Reactor main loop, Peer task, Protocol, Connection, Listener and API process plumbing run on a virtual-time asyncio loop with in-memory sockets. '
         'Every execution of a default session script with at most k deviations (k=2 quick on the active configuration, k=1 on seven more - tcp.attempts=1, graceful restart, passive, peer hold time 0, local hold time 0, two neighbors of which only the first is disturbed, local-as auto where the OPEN of the peer is read before ours is sent; k=3/2 thorough) from a menu of ~20 '
         'faults and events at each of 16 macro steps is run, and six monitors check each trace: transitions within the RFC relation, ESTABLISHED only after OPEN sent + OPEN and KEEPALIVE received on that connection, '
         'no UPDATE/EOR/ROUTE-REFRESH outside ESTABLISHED, transport closed on leaving a connected state (within 50 ms of virtual time, i.e. not a read period later, and never left open without an owner), API up/down alternation, no peer left in a connected state without an open transport; with two neighbors the undisturbed one must come up once and stay. A fraction of the executions is run twice and must be observed identically. A configuration in which the neighbor alone is passive (bound 2 in both tiers): no connection to it is ever opened by ExaBGP. A Hold Timer Expired is never the first message on a connection.',
    note='Trusted: the virtual loop (ordered segments, EOF/RST/EPIPE as the only transport faults, data before timers), vt/ref/wire.py framing. Outside: >k faults per run, multi-peer interaction, kernel TCP details.',
)
