CHECKS['C13'] = dict(
    engine='E-in',
    design_ref='DESIGN.md 4 C13',
    technique='exhaustive enumeration of (peer-chosen string field x hostile payload x encoder) through full sessions in the virtual world, and of every decodable UPDATE of the C02/C08 enumerations through the three API encoders and Processes.write; strict-JSON / one-line / same-structure oracle',
    text='(A) 7 peer-chosen fields (host name, domain name, software version, unknown capability, shutdown communication, NOTIFICATION data, unknown attribute) x 17 hostile payloads (quote, backslash, LF, CR, NUL, TAB, DEL, 0x80, 0xFF, invalid UTF-8, U+2028, forged key, forged event, forged text line, 251 bytes, ESC) x {JSON v6, JSON v4, text v4}: '
         'each is a full session on the real reactor whose API child output is read from the pipe and compared with the same session carrying a benign string: every JSON line must parse with duplicate keys rejected, carry the envelope, hold no raw control character and have the same structure; text events the same line count and no control character; nothing may be lost to an exception. '
         '(B) about 37000 well-formed UPDATEs (C02) and 2400 malformed ones (C08) rendered by the three encoders and written through Processes.write.',
    note='Trusted: json.loads with a duplicate-key hook as the definition of well-formed; the benign run as the structural reference. A session the daemon refuses because of the string is not a violation. Outside: BGP-LS / SR sub-TLV strings (their decoders are covered for crashes by C03), operational messages.',
)
