CHECKS['C16'] = dict(
    engine='E-in',
    design_ref='DESIGN.md 4 C16',
    technique='bounded exhaustive input enumeration (small scope) of abstract FlowSpec rules, rendered to ExaBGP text and to RFC 8955/8956 reference bytes; both directions through the real parser/packer/UPDATE decoder',
    text='The full product of small alphabets over abstract FlowSpec rules is enumerated: every component type singly with operator lists of length 1-3 '
         'over all 8 numeric (4 bitmask) operators x AND/OR x values at every width boundary and the first value beyond the range, all 1/2/3-subsets of the '
         '12 IPv4 / 13 IPv6 component types (thorough: 4-subsets) in every textual order, IPv4/IPv6 prefixes with offsets, RD forms, traffic actions singly '
         'and in ordered pairs, port lists padding the NLRI to 239/240/241/255/256/4094/4095/4096 octets. Each rule is rendered by vt/ref/flowspec.py (no '
         'ExaBGP code) as text for three real entry points (API.api_flow, API.api_announce_v4/v6 one-line syntax, Configuration flow section) and as '
         'reference bytes; the real Flow.pack_nlri and the packed extended communities must equal the reference byte for byte. Every reference encoding, '
         'and around every 1/2-subset rule (thorough: 3-subset) every truncation, undefined component type, reserved operator bit, misplaced AND, missing '
         'end-of-list and wider value width, goes through the real UPDATE decoder (Message.unpack, Update.parse, MP_REACH_NLRI, Flow.unpack_nlri); the '
         'delivered rule must be the one the reference decoder extracts and what the reference calls malformed must not be delivered. Exhaustive inside '
         'the stated alphabets, which is the right level for a codec whose defects sit at width, length and ordering boundaries. The value alphabets of the two bitmask components (tcp-flags, fragment) end with the first value beyond the defined bits, which no rule may carry.',
    note='Trusted: vt/ref/flowspec.py (golden vectors RFC 8955 4.3 ex. 1-3, RFC 8956 3.8 ex. 2-3, transcribed by hand). Tolerated: flow-label in 1/2/4 or '
         'always 4 octets, prefix bits beyond the length, refusal of input the RFC frowns upon. Outside the bound: the same keyword twice in one match block, '
         'interface-set / community actions, rate-limit clamping above 1e12, withdraw texts, ADD-PATH.',
)
