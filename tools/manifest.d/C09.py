CHECKS['C09'] = dict(
    engine='E-in',
    design_ref='DESIGN.md 4 C09',
    technique='exhaustive boundary-grid enumeration (size x ADD-PATH x family mix x byte-by-byte attribute padding x counts around the measured exact fit x announce/withdraw/both) of the real UpdateCollection.messages(), each message strictly decoded alone by the reference decoder and the set reassembled',
    text='For both maximum sizes, ADD-PATH on/off, five family mixes, /24 and /32 prefixes, one or two next hops, attribute blocks padded byte by byte (0-9) and across the 255-byte extended-length threshold, the prefix count is set to N-1, N, N+1, 2N, 2N+1 '
         'around the exact-fit count N measured on the implementation, in announce-only, withdraw-only and mixed mode (about 3000 grid points quick, each up to 65 KB). Every generated message must be within the negotiated size, carry its true length, decode on its own, '
         'and together they must announce exactly the requested routes with their attributes and their own next hop and withdraw exactly the requested withdrawals; attribute blocks leaving -1..40 bytes of room must give no oversized message and no exception.',
    note='Trusted: vt/ref/wire.py. Duplicates of a requested item are tolerated, foreign items are not. Routes are parsed from text by the real API parser; IPv4 unicast routes of one collection share one next hop as the RIB groups them. Outside: families other than IPv4/IPv6 unicast and VPNv4 (the form of the MP_REACH next hop of every other family is judged by C15 on one-route UPDATEs).',
)
