CHECKS['C03'] = dict(
    engine='E-in',
    design_ref='DESIGN.md 4 C03',
    technique='bounded exhaustive enumeration of peer input (all tiny bodies; every single-point deviation of a frozen seed corpus, pairs in thorough; scaling ladders) through the real Message.unpack + forced rendering and the real Protocol.read_message, '
              'judged by an RFC outcome table, a strict reference decoder for validity and a PEP 669 step budget',
    text='(a) ALL bodies of length 0-1 for type bytes {0..7,252,255} x 4 sessions (ASN4 on/off x ADD-PATH receive on/off), length 2 in full for types 1..6 on one session and with the second byte in {00,01,7f,80,ff} elsewhere; '
         '(b) a frozen corpus (corpus/c03/seeds.txt: UPDATEs of the C02 alphabets through the reference encoder, OPENs with every capability, NOTIFICATION 1..7 x 0..11 + shutdown communications, ROUTE-REFRESH, KEEPALIVE, OPERATIONAL, and a covering '
         'subset of the recorded QA messages: EVPN, FlowSpec, BGP-LS, SR policy, prefix-SID, MVPN, MUP, VPLS, RTC...) x 4 sessions (+ one session without extended next hop for the non-C02 seeds) x EVERY single-point deviation: truncation at every offset, '
         'every byte <- {00,01,7f,80,ff,b-1,b+1}, every located length field <- {0,len-1,len+1,max}, every attribute / optional parameter / capability TLV duplicated, deleted, swapped with its neighbour; thorough adds all PAIRS of byte deviations on seeds <= 48 bytes; '
         '(c) 10 scaling ladders N=1,2,4,.. up to the 4096- and 65535-byte limits (unknown attributes, communities, ext/large communities, AS_PATH segments, NLRI, withdrawn, MP_REACH NLRI, capabilities), each member confirmed valid by the strict reference decoder. '
         'Every input is decoded by Message.unpack(type, memoryview, negotiated) and every lazy part forced (Update.data, NLRI str/extensive/json/v4_json, attributes, the API v4 text encoder which also runs the v6 JSON encoder, through the real Processes.message; '
         'OPEN: Negotiated.received/validate), and by Protocol.read_message on a fake socket under the virtual loop with the API configured receive { parsed; packets; consolidate; <all types> } (quick: every 4th deviation plus every input the direct decode flags; '
         'all seeds, ladders and tiny bodies always). Oracle: decoded-and-rendered, a received Notification, or a Notify whose (code, subcode) the RFCs define for that message type; any other exception, an exception laundered into 1/0, a step-budget overrun '
         '(function entries + jumps), a refused valid seed / ladder member, or ladder cost above 4 x the line through N=1,2 is a violation. Signatures name the root cause (exception type + innermost exabgp function).',
    note='Trusted: vt/ref/wire.py (strict decoder = validity; RFC 7606 3.g for repeated attribute codes), the hand-written RFC code table (3/0 accepted: IANA / erratum 4493), recorded QA messages presumed valid where the reference has no model. '
         'Not enumerable: all byte strings up to 65535 bytes; the linear-time clause is refutable on the ladders only and in interpreter steps only (C-level copying is not counted); UpdateHandler / RIB processing after decode is C02/C19 territory.',
)
