CHECKS['C04'] = dict(
    engine='E-seq',
    design_ref='DESIGN.md 4 C04',
    technique='explicit-state BFS over all RIB-operation/transmit interleavings to a depth bound on the real OutgoingRIB, peer-table reference model',
    text='Every sequence (depth 6 quick, 7 thorough) of announce/withdraw (bare prefix, and the full announce line with its attributes in the ungrouped variant)/watchdog/flush/clear operations interleaved with single-message '
         'transmitter steps is executed on a real OutgoingRIB through the real Protocol.new_update_generator; from every reached state the queue '
         'is drained and the table a reference BGP receiver builds from the emitted bytes must equal both cached_routes() and the table the '
         'history intends. Exhaustive inside the bound, which is the right level for an ordering/atomicity property of a small state machine. Variant pathid: routes written with path-information on a session without ADD-PATH, the tables compared by the key the wire has (one open finding, signature *:pathid).',
    note='Trusted: vt/ref/wire.py decoder; the alphabet (2-3 prefixes x 2 attribute sets x 2 next hops x 2 path ids); operations enter at the OutgoingRIB calls the API handlers make.',
)
