CHECKS['C01'] = dict(
    engine='E-in',
    design_ref='DESIGN.md 4 C01',
    technique='exhaustive small-scope enumeration (sessions x NLRI shapes x next hops x <=k attribute deviations) of route text through the real parser, RIB and UPDATE encoder, decoded by an independent RFC reference decoder',
    text='53 negotiated sessions x 116 NLRI shapes (unicast, labeled, VPN; IPv4/IPv6; boundary masks; path ids; label stacks; RD types) x next hops (address, self, IPv6-for-IPv4) x attribute sets '
         '(default, every single deviation for all shapes, every pair - thorough: triple - for 5 core shapes over a 33-value alphabet of 13 keywords): about 6*10^5 cases quick; every next-hop-self case is also run with a second neighbor (other local address) served the same parsed route before / after the observed one, every fourth session through the configuration-file path, and every other session through the `announce <afi> <safi> <prefix> ...` grammar of the API (every shape with every single attribute deviation, pairs for the core shapes). '
         'Each is rendered to text by the check, parsed by the real API parser, resolved, queued in a real OutgoingRIB, encoded by UpdateCollection.messages under a real Negotiated, and the bytes are decoded by vt/ref/wire.py and compared with the value the RFC rules give for (abstract route, session). Label stacks include two with a repeated value.',
    note='Trusted: vt/ref/wire.py and the expectation function in the check. Tolerances: attribute order, LOCAL_PREF given on eBGP absent or as given, as-path sent as given or with the local AS prepended, AIGP only when enabled. Outside: values not in the alphabets, >3 simultaneous attribute deviations, IPv6 transport sessions.',
)
