CHECKS['C07'] = dict(
    engine='E-in',
    design_ref='DESIGN.md 4 C07',
    technique='bounded exhaustive input enumeration of (neighbor configuration text, peer OPEN bytes) pairs against an RFC reference negotiation function',
    text='Every configuration of an abstract space (asn4 x local AS x 16 family sets x add-path modes x ext-nh x refresh x ext-msg x hold times x GR x '
         'host name; 30720 texts) is parsed by the real configuration parser and turned into an OPEN by the real Capabilities.new/make_open/'
         'pack_message; the bytes are decoded by the reference codec and must advertise exactly what the text enables and survive ExaBGP unpack/pack '
         '(standard and RFC 9072 layouts). Peer OPEN bytes come from the reference encoder; all vectors with at most K (quick 2, thorough 3) of 15 '
         'units off default are run, interacting groups (AS fields x ASN4 instances, families x families, add-path x add-path, hold x hold, ext-msg, '
         'refresh, ext-nh) being crossed fully inside a unit, plus every capability sequence of length <= 3 (duplicates, orders) in 4 parameter '
         'layouts, damaged parameter blocks, and every vector with at most one unit off default negotiated right after an all-on session, an all-off session and a session whose peer advertised route refresh under codes 2 then 128, in the same process (the result must not depend on what was negotiated before; our OPEN is built again then and must still advertise what the configuration enables). Each pair goes through the real Message.unpack(OPEN), Negotiated.sent/received and '
         'Protocol.validate_open and is compared with vt/ref/negotiate.py (families, asn4, both AS numbers, add-path per family and direction, '
         'ext-nh tuples, refresh flavour, message size, hold time, or the refusal subcode). A pure function of two small inputs: exhaustive '
         'small-scope enumeration with an independent oracle is the fitting level.',
    note='Trusted: vt/ref/wire.py OPEN codec and vt/ref/negotiate.py (55 hand-worked vectors). Tolerated: RFC 4760 s8 implicit IPv4 unicast, '
         'repeated ASN4/ADD-PATH instances (any instance), code 128 refresh, 2/2 for a 2-octet AS field contradicting the ASN4 capability. '
         'Outside: multisession, paths-limit, operational, link-local next hop, JSON negotiated event, capability values > 255 octets.',
)
