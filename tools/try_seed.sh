#!/bin/sh
# tools/try_seed.sh <dir-with-patch.diff> <property-id> [tier]   -- only runs our check against the changed tree
SEED=$1; ID=$2; TIER=${3:-quick}
WT=/tmp/try-$ID-$$
git -C /repo worktree add -q $WT HEAD || exit 2
( cd $WT && git apply $SEED/patch.diff ) || { echo "PATCH-DOES-NOT-APPLY"; git -C /repo worktree remove --force $WT; exit 2; }
cd /verif
VERIF_REPO_SRC=$WT/src ./check $ID $TIER > $WT.log 2>&1; rc=$?
echo "check $ID $TIER exit=$rc"; grep -E "^VIOLATION|^  signature=" $WT.log | head -8 | cut -c1-400; tail -1 $WT.log | cut -c1-250
git -C /repo worktree remove --force $WT; rm -f $WT.log
