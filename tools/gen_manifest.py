#!/usr/bin/env python3
"""Regenerates MANIFEST.json from the table below (kept in one place so it stays valid)."""
import json, os

ROOT = os.path.dirname(os.path.dirname(os.path.abspath(__file__)))
CHECKS = {}
NA = {}
for _f in sorted(os.listdir(os.path.join(ROOT, 'tools', 'manifest.d'))):
    if _f.endswith('.py'):
        exec(open(os.path.join(ROOT, 'tools', 'manifest.d', _f)).read())

ENABLED = set(open(os.path.join(ROOT, 'tools', 'enabled.txt')).read().split())
CHECKS = {k: v for k, v in CHECKS.items() if k in ENABLED}
checks = []
for pid in sorted(CHECKS):
    c = CHECKS[pid]
    checks.append({
        'property_id': pid,
        'quick_cmd': f'./check {pid} quick',
        'thorough_cmd': f'./check {pid} thorough',
        'evidence_file': f'/verif/evidence/{pid}.json',
        'replay_cmd_template': './check --replay {path}',
        'engine': c['engine'],
        'level_claimed': {'category': 'model_checking', 'text': c['text'], 'design_ref': c['design_ref']},
        'level_note': c['note'],
        'technique': c['technique'],
    })
props = [json.loads(l)['id'] for l in open(os.path.join(ROOT, 'properties.jsonl'))]
na = [{'property_id': p, 'reason': NA.get(p, 'check not built yet in this round; see DESIGN.md section 4')} for p in props if p not in CHECKS]
m = {
    'version': 1,
    'setup_cmd': './tools/setup.sh',
    'hooks': {
        'guard': 'EXABGP_VERIF',
        'enable': 'no source hooks: ./check exports EXABGP_VERIF=1 and imports /repo/src as it is on disk; all seams are rebound from outside (see DESIGN.md 2)',
        'baseline_off_cmd': './tools/baseline.sh',
        'source_commits': [],
        'add_only': True,
    },
    'engines': [
        {'name': 'E-seq', 'path': 'vt/checks', 'serves_properties': [p for p in sorted(CHECKS) if CHECKS[p]['engine'] == 'E-seq'], 'kind_free_text': 'explicit-state BFS over operation histories replayed on fresh real objects, canonical-state dedup'},
        {'name': 'E-dev', 'path': 'vt/world', 'serves_properties': [p for p in sorted(CHECKS) if CHECKS[p]['engine'] == 'E-dev'], 'kind_free_text': 'stateless deviation-bounded schedule/fault exploration of the real reactor under a virtual event loop'},
        {'name': 'E-in', 'path': 'vt/checks', 'serves_properties': [p for p in sorted(CHECKS) if CHECKS[p]['engine'] == 'E-in'], 'kind_free_text': 'exhaustive small-scope input enumeration (full products / <=k field deviations) against an independent RFC reference codec'},
    ],
    'checks': checks,
    'not_applicable': na,
    'notes': 'All checks: bounded exhaustive enumeration on the real implementation; oracles in vt/ref share no code with exabgp. See DESIGN.md.',
}
json.dump(m, open(os.path.join(ROOT, 'MANIFEST.json'), 'w'), indent=1)
print('checks:', len(checks), 'not_applicable:', len(na))
