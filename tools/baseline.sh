#!/bin/sh
# Runs the repository's pinned test suite (guard off) and compares with /root/.vp/BASELINE.json.
# usage: tools/baseline.sh [repo-dir]   -> prints failures that the baseline expects to pass; exit 0 if none
REPO=${1:-/repo}
OUT=$(mktemp /var/tmp/baseline.XXXXXX.xml)
cd "$REPO" || exit 2
env -u EXABGP_VERIF /venv/bin/python -m pytest -q -p no:cacheprovider --timeout=900 --continue-on-collection-errors --junitxml="$OUT" >/dev/null 2>&1
/venv/bin/python - "$OUT" <<'PY'
import json, sys
import xml.etree.ElementTree as ET
base = json.load(open('/root/.vp/BASELINE.json'))
want = set(base['stable_pass'])
got = set()
bad = set()
for tc in ET.parse(sys.argv[1]).getroot().iter('testcase'):
    name = f"{tc.get('classname')}::{tc.get('name')}"
    if any(c.tag in ('failure', 'error') for c in tc):
        bad.add(name)
    elif not any(c.tag == 'skipped' for c in tc):
        got.add(name)
def norm(n):
    return n
missing = sorted(w for w in want if w not in got and not any(g.endswith(w.split('::')[-1]) and g.split('::')[0].endswith(w.split('::')[0].split('.')[-1]) for g in got))
print(f'passed={len(got)} failed={len(bad)} baseline={len(want)} baseline_missing={len(missing)}')
for m in missing[:40]:
    print('MISSING', m)
sys.exit(1 if missing else 0)
PY
rc=$?
rm -f "$OUT"
# the suite itself leaves this file in the repository root
rm -f "$REPO/compat_corpus.py"
exit $rc
