#!/bin/sh
# Nothing to build: the machinery is pure Python run by /venv/bin/python against /repo/src.
cd "$(dirname "$0")/.." || exit 1
mkdir -p evidence replays
/venv/bin/python -c "import sys; sys.path.insert(0,'/repo/src'); import exabgp; import vt.core, vt.ref.wire" || exit 1
/venv/bin/python -m vt.ref.selftest || exit 1
echo setup ok
