#!/bin/sh
# tools/seed_matrix.sh [tier]  -- every stored seeded change against the quick (or given) tier of its property.
# For each /verif/seeded/<name>: fresh worktree of /repo HEAD + patch.diff, ./check <ID> <tier> with VERIF_REPO_SRC.
# Prints one line per seed: CAUGHT (exit 1 with a VIOLATION line) / MISSED (exit 0) / BROKEN (anything else).
TIER=${1:-quick}
cd /verif
for d in /verif/seeded/*/; do
  name=$(basename $d); id=$(python3 -c "import json,sys; print(json.load(open('$d/meta.json')).get('check') or '$name'[:3])" 2>/dev/null || echo $name | cut -c1-3)
  if grep -q '"obsolete"' $d/meta.json 2>/dev/null; then echo "OBSOLETE $name (the change no longer breaks the property on the repaired tree, see meta.json)"; continue; fi
  WT=/tmp/matrix-$name
  git -C /repo worktree remove --force $WT >/dev/null 2>&1
  git -C /repo worktree add -q $WT HEAD || { echo "BROKEN $name (worktree)"; continue; }
  if ! ( cd $WT && git apply $d/patch.diff ) 2>/dev/null; then echo "BROKEN $name (patch does not apply)"; git -C /repo worktree remove --force $WT; continue; fi
  VERIF_REPO_SRC=$WT/src ./check $id $TIER > /var/tmp/matrix-$name.log 2>&1; rc=$?
  nv=$(grep -c '^VIOLATION' /var/tmp/matrix-$name.log)
  if [ $rc -eq 1 ] && [ $nv -gt 0 ]; then echo "CAUGHT $name ($nv signatures: $(grep -m1 '^  signature=' /var/tmp/matrix-$name.log | cut -c3-90))";
  elif [ $rc -eq 0 ]; then echo "MISSED $name"; else echo "BROKEN $name rc=$rc $(tail -1 /var/tmp/matrix-$name.log | cut -c1-120)"; fi
  git -C /repo worktree remove --force $WT; rm -f /var/tmp/matrix-$name.log
done
rm -rf /var/tmp/verif-scratch-evidence
