#!/venv/bin/python
"""Build the FROZEN input alphabet of check C15 under /verif/corpus/c15/.

Run once (``/venv/bin/python tools/harvest_c15.py``); the output is committed and is what vt/checks/c15.py reads.
Only *inputs* are frozen - text lines and hex strings - never objects: every run of the check rebuilds the
objects with the code of the tree under test, and the corpus does not move when /repo is edited.

Sources
  (a) text : every API command of /repo/qa/encoding/*.ci (``N:cmd:`` lines) and every configuration file of
             /repo/etc/exabgp/*.conf which holds at least one route (frozen whole: the neighbor/family context
             a statement needs is the file around it; backslash continuations joined, nothing else touched)
  (b) wire : every NLRI and every path attribute inside the recorded messages of /repo/qa/decoding/* and the
             ``N:raw:`` lines of /repo/qa/encoding/*.ci, split with vt/ref/wire.py (walk_attrs, MP_REACH /
             MP_UNREACH headers) and the per-family NLRI framing below (written from the RFCs, no exabgp)
  (c) hand : boundary members built with the reference encoder (IP families) and hand-written hex transcribed
             from the RFC layouts (other families, attribute sub-types)

Files written (tab separated, '#' comments)
  api_lines.txt   status  source  command            status = A accepted / R refused / S not a route statement (eor, group ...) / X exception at harvest
  conf/<name>     configuration text;  conf_index.txt   name  routes-at-harvest
  nlri.txt        afi  safi  action(A|W)  hex(one NLRI, no path identifier)  source
  attrs.txt       code  flags(hex)  asn4(0|1; 'ap' on MP_REACH/MP_UNREACH recorded with ADD-PATH)  hex(value)  source

exabgp is imported ONLY to report, at the end, what the current tree makes of every member (coverage table,
members it refuses) so that a non-canonical hand-written member is noticed when it is written, not later.
"""

from __future__ import annotations

import glob
import ipaddress
import os
import re
import struct
import sys

ROOT = os.path.dirname(os.path.dirname(os.path.abspath(__file__)))
sys.path.insert(0, ROOT)
REPO = os.environ.get('VERIF_REPO', '/repo')
OUT = os.path.join(ROOT, 'corpus', 'c15')

from vt.ref import wire  # noqa: E402

# ---------------------------------------------------------------------------------------------
# per-family NLRI framing (RFC 4271/4760 prefix form, RFC 8955 flow, RFC 7432 evpn, RFC 4761 vpls,
# RFC 4684 rtc, RFC 7752 bgp-ls, draft-mpmz-bess-mup-safi, RFC 6514 mvpn, RFC 9256/draft sr-policy)
# ---------------------------------------------------------------------------------------------
BITLEN = {(1, 1), (2, 1), (1, 2), (2, 2), (1, 4), (2, 4), (1, 128), (2, 128), (1, 132), (1, 73), (2, 73)}
FLOW = {(1, 133), (2, 133), (1, 134), (2, 134)}
TYPE1_LEN1 = {(25, 70), (1, 5), (2, 5)}
LEN2 = {(25, 65)}
TYPE2_LEN2 = {(16388, 71), (16388, 72)}
MUP = {(1, 85), (2, 85)}
ALL_FAMILIES = sorted(BITLEN | FLOW | TYPE1_LEN1 | LEN2 | TYPE2_LEN2 | MUP)


def nlri_size(afi: int, safi: int, data: bytes) -> int:
    """Number of bytes of the first NLRI of `data` (no path identifier), -1 when it does not frame."""
    fam = (afi, safi)
    if not data:
        return -1
    if fam in BITLEN:
        n = 1 + (data[0] + 7) // 8
    elif fam in FLOW:
        if data[0] >= 0xF0:
            if len(data) < 2:
                return -1
            n = 2 + (((data[0] & 0x0F) << 8) | data[1])
        else:
            n = 1 + data[0]
    elif fam in TYPE1_LEN1:
        if len(data) < 2:
            return -1
        n = 2 + data[1]
    elif fam in LEN2:
        if len(data) < 2:
            return -1
        n = 2 + struct.unpack('!H', data[:2])[0]
    elif fam in TYPE2_LEN2:
        if len(data) < 4:
            return -1
        n = 4 + struct.unpack('!H', data[2:4])[0]
    elif fam in MUP:
        if len(data) < 4:
            return -1
        n = 4 + data[3]
    else:
        return -1
    return n if n <= len(data) else -1


def split_nlris(afi: int, safi: int, blob: bytes, addpath: bool):
    """-> [(path id or None, nlri bytes)] or None when the blob does not frame exactly."""
    out = []
    pos = 0
    while pos < len(blob):
        pid = None
        if addpath:
            if len(blob) - pos < 5:
                return None
            pid = struct.unpack('!L', blob[pos:pos + 4])[0]
            pos += 4
        n = nlri_size(afi, safi, blob[pos:])
        if n < 0:
            return None
        one = blob[pos:pos + n]
        if not plausible(afi, safi, one):
            return None
        out.append((pid, one))
        pos += n
    return out


def plausible(afi: int, safi: int, one: bytes) -> bool:
    if (afi, safi) in {(1, 1), (1, 2)}:
        return one[0] <= 32
    if (afi, safi) in {(2, 1), (2, 2)}:
        return one[0] <= 128
    if safi in (4, 128) and afi in (1, 2):
        extra = 64 if safi == 128 else 0
        return 24 + extra <= one[0] <= 24 * 6 + extra + (32 if afi == 1 else 128)
    if (afi, safi) == (25, 70):
        return 1 <= one[0] <= 11
    if safi == 5:
        return 1 <= one[0] <= 7
    if safi == 73:
        return one[0] in (96, 192)
    return True


# ---------------------------------------------------------------------------------------------
# (b) wire
# ---------------------------------------------------------------------------------------------
def messages():
    """-> [(source, update body bytes)] of every recorded UPDATE."""
    out = []
    for f in sorted(glob.glob(os.path.join(REPO, 'qa/encoding/*.ci'))):
        name = os.path.basename(f)
        for i, line in enumerate(open(f), 1):
            m = re.match(r'^\d+:raw:([0-9A-Fa-f:]+)\s*$', line)
            if not m:
                continue
            raw = bytes.fromhex(m.group(1).replace(':', ''))
            msgs, err, rest = wire.split_stream(raw, 65535)
            for mtype, body in msgs:
                if mtype == wire.UPDATE:
                    out.append((f'{name}:{i}', body))
    for f in sorted(glob.glob(os.path.join(REPO, 'qa/decoding/*'))):
        name = os.path.basename(f)
        lines = open(f).read().split('\n')
        kind = lines[0].split()
        raw = bytes.fromhex(lines[1].strip().replace(':', ''))
        if kind[0] == 'update':
            if raw.startswith(wire.MARKER):
                msgs, err, rest = wire.split_stream(raw, 65535)
                for mtype, body in msgs:
                    if mtype == wire.UPDATE:
                        out.append((f'decoding/{name}', body))
            else:
                out.append((f'decoding/{name}', raw))
        elif kind[0] == 'nlri':
            out.append((f'decoding/{name}', ('nlri', kind[1], kind[2], raw)))
    return out


AFI_NAMES = {'ipv4': 1, 'ipv6': 2, 'l2vpn': 25, 'bgp-ls': 16388}
SAFI_NAMES = {'unicast': 1, 'multicast': 2, 'nlri-mpls': 4, 'mcast-vpn': 5, 'vpls': 65, 'evpn': 70, 'bgp-ls': 71, 'bgp-ls-vpn': 72,
              'sr-policy': 73, 'mup': 85, 'mpls-vpn': 128, 'rtc': 132, 'flow': 133, 'flow-vpn': 134}


def split_update(body: bytes, asn4: bool, addpath: bool):
    """-> (nlris [(afi, safi, action, pid, bytes)], attrs [(code, flags, value)]) or None if this context does not fit."""
    if len(body) < 4:
        return None
    wlen = struct.unpack('!H', body[:2])[0]
    if 4 + wlen > len(body):
        return None
    alen = struct.unpack('!H', body[2 + wlen:4 + wlen])[0]
    if 4 + wlen + alen > len(body):
        return None
    nl = []
    w = split_nlris(1, 1, body[2:2 + wlen], addpath)
    a = split_nlris(1, 1, body[4 + wlen + alen:], addpath)
    if w is None or a is None:
        return None
    nl += [(1, 1, 'W', pid, b) for pid, b in w]
    nl += [(1, 1, 'A', pid, b) for pid, b in a]
    attrs = []
    try:
        tlvs = wire.walk_attrs(body[4 + wlen:4 + wlen + alen])
    except wire.RefError:
        return None
    for flags, code, value in tlvs:
        if code == wire.MP_REACH:
            if len(value) < 5:
                return None
            afi, safi, nhlen = struct.unpack('!HBB', value[:4])
            blob = value[4 + nhlen + 1:]
            got = split_nlris(afi, safi, blob, addpath)
            if got is None:
                return None
            nl += [(afi, safi, 'A', pid, b) for pid, b in got]
        elif code == wire.MP_UNREACH:
            if len(value) < 3:
                return None
            afi, safi = struct.unpack('!HB', value[:3])
            got = split_nlris(afi, safi, value[3:], addpath)
            if got is None:
                return None
            nl += [(afi, safi, 'W', pid, b) for pid, b in got]
        elif code in (wire.AS_PATH, wire.AGGREGATOR):
            try:
                wire.decode_attr_value(code, value, asn4)
            except wire.RefError:
                return None
        attrs.append((code, flags, value))
    return nl, attrs


def harvest_wire():
    nlris = {}   # (afi, safi, action, hex) -> source
    attrs = {}   # (code, flags, asn4, hex) -> source
    unfit = []
    for source, body in messages():
        if isinstance(body, tuple):
            _, afin, safin, raw = body
            afi, safi = AFI_NAMES[afin], SAFI_NAMES[safin]
            got = split_nlris(afi, safi, raw, False)
            if got is None:
                unfit.append(source)
                continue
            for pid, b in got:
                nlris.setdefault((afi, safi, 'A', b.hex()), source)
            continue
        for asn4, addpath in ((True, False), (True, True), (False, False), (False, True)):
            got = split_update(body, asn4, addpath)
            if got is not None:
                break
        else:
            unfit.append(source)
            continue
        nl, at = got
        for afi, safi, action, pid, b in nl:
            nlris.setdefault((afi, safi, action, b.hex()), source + (f' pid={pid}' if pid is not None else ''))
        for code, flags, value in at:
            # the ASN4 context only matters to AS_PATH and AGGREGATOR
            a4 = asn4 if code in (wire.AS_PATH, wire.AGGREGATOR) else True
            if code in (wire.MP_REACH, wire.MP_UNREACH) and addpath:
                a4 = 'ap'  # the NLRIs inside carry path identifiers
            attrs.setdefault((code, flags & 0xEF, a4, value.hex()), source)
    return nlris, attrs, unfit



# ---------------------------------------------------------------------------------------------
# (c) hand-built members
# ---------------------------------------------------------------------------------------------
def _masked(afi: int, mask: int, pattern: int = 0xAB) -> str:
    """An address whose first `mask` bits follow a pattern and whose other bits are zero (canonical prefix)."""
    size = 4 if afi == 1 else 16
    raw = bytearray([(pattern + 17 * i) & 0xFF or 1 for i in range(size)])
    full, rem = divmod(mask, 8)
    for i in range(size):
        if i > full or (i == full and rem == 0):
            raw[i] = 0
        elif i == full:
            raw[i] &= (0xFF << (8 - rem)) & 0xFF
    return str(ipaddress.ip_address(bytes(raw)))


MASKS4 = [0, 1, 7, 8, 9, 15, 16, 17, 23, 24, 25, 31, 32]
MASKS6 = [0, 1, 7, 8, 9, 16, 32, 47, 48, 49, 63, 64, 65, 127, 128]
LABELS = [(16,), (16, 17), (16, 17, 18), (0,), (1048575,)]
RDS = [wire.rd_type0(65000, 1), wire.rd_type1('192.0.2.1', 5), wire.rd_type2(4200000000, 9), wire.rd_type0(0, 0), wire.rd_type0(65000, 2)]


def hand_ip():
    """-> [(afi, safi, 'A', hex, source)] from the reference encoder (RFC 4271 4.3, RFC 4760, RFC 8277, RFC 4364)."""
    out = []
    for afi, masks in ((1, MASKS4), (2, MASKS6)):
        for safi in (1, 2):
            for m in masks:
                for pat in (0xAB, 0x5C):
                    if m == 0 and pat != 0xAB:
                        continue
                    n = wire.nlri_ip(afi, safi, _masked(afi, m, pat), m)
                    out.append((afi, safi, 'A', wire.encode_nlri(n, False).hex(), f'hand:ref mask={m}'))
        for m in masks:
            for li, lab in enumerate(LABELS):
                # every mask with one label, every label stack with three masks
                if li and m not in (masks[0], 24, masks[-1]):
                    continue
                n = wire.nlri_ip(afi, 4, _masked(afi, m), m, None, lab)
                out.append((afi, 4, 'A', wire.encode_nlri(n, False).hex(), f'hand:ref mask={m} labels={list(lab)}'))
        for m in masks:
            for ri, rd in enumerate(RDS):
                for li, lab in enumerate(LABELS[:3]):
                    if (ri or li) and m not in (masks[0], 24, masks[-1]):
                        continue
                    if 24 * len(lab) + 64 + m > 255:
                        continue  # the length octet cannot say it (IPv6 /128 behind three labels and an RD)
                    n = wire.nlri_ip(afi, 128, _masked(afi, m), m, None, lab, rd)
                    out.append((afi, 128, 'A', wire.encode_nlri(n, False).hex(), f'hand:ref mask={m} labels={list(lab)} rd={rd.hex()}'))
        # RFC 8277 2.4 / RFC 3107: withdraws may carry 0x800000 or 0x000000 in place of the label
        for safi, rd in ((4, None), (128, RDS[0])):
            for compat in (b'\x80\x00\x00', b'\x00\x00\x00'):
                m = 24
                body = compat + (rd or b'') + wire.prefix_bytes(_masked(afi, m), m)
                out.append((afi, safi, 'W', (bytes([24 + (64 if rd else 0) + m]) + body).hex(), f'hand:rfc8277 withdraw label {compat.hex()}'))
    return out


def _ip(a: str) -> bytes:
    return ipaddress.ip_address(a).packed


ESI0 = bytes(10)
ESI1 = bytes.fromhex('00112233445566778899')
MAC1 = bytes.fromhex('001122334455')
MAC2 = bytes.fromhex('feffffffffff')


def _lab(v: int, bos: int = 1) -> bytes:
    return ((v << 4) | bos).to_bytes(3, 'big')


def hand_evpn():
    """RFC 7432 section 7 (types 1-4), RFC 9136 section 3 (type 5): [type][len][value]."""
    out = []

    def add(t, body, what):
        out.append((25, 70, 'A', (bytes([t, len(body)]) + body).hex(), f'hand:rfc7432 type{t} {what}'))

    for rd in RDS[:3]:
        for esi in (ESI0, ESI1):
            for tag in (0, 1, 0xFFFFFFFF):
                if (rd is not RDS[0]) and (esi is ESI1 or tag):
                    continue
                t = struct.pack('!L', tag)
                add(1, rd + esi + t + _lab(100), f'ethernet-ad tag={tag}')
                add(2, rd + esi + t + b'\x30' + MAC1 + b'\x00' + _lab(100), f'mac tag={tag}')
                add(2, rd + esi + t + b'\x30' + MAC2 + b'\x20' + _ip('192.0.2.1') + _lab(100), f'mac+ipv4 tag={tag}')
                add(2, rd + esi + t + b'\x30' + MAC1 + b'\x80' + _ip('2001:db8::1') + _lab(100), f'mac+ipv6 tag={tag}')
                add(3, rd + t + b'\x20' + _ip('192.0.2.1'), f'multicast v4 tag={tag}')
                add(3, rd + t + b'\x80' + _ip('2001:db8::1'), f'multicast v6 tag={tag}')
                add(4, rd + esi + b'\x20' + _ip('192.0.2.1'), 'segment v4')
                add(4, rd + esi + b'\x80' + _ip('2001:db8::1'), 'segment v6')
                add(5, rd + esi + t + b'\x18' + _ip('10.1.2.0') + _ip('192.0.2.254') + _lab(100), f'prefix v4 /24 tag={tag}')
                add(5, rd + esi + t + b'\x00' + _ip('0.0.0.0') + _ip('0.0.0.0') + _lab(0), f'prefix v4 /0 tag={tag}')
                add(5, rd + esi + t + b'\x40' + _ip('2001:db8:1:2::') + _ip('2001:db8::fe') + _lab(100), f'prefix v6 /64 tag={tag}')
    # two labels on a MAC/IP route (RFC 7432 7.2: MPLS Label2 is optional)
    add(2, RDS[0] + ESI0 + bytes(4) + b'\x30' + MAC1 + b'\x20' + _ip('192.0.2.1') + _lab(100, 0) + _lab(200), 'mac+ipv4 two labels')
    # same MAC, different label only: RFC 7432 7.2 says label is not part of the route key
    add(2, RDS[0] + ESI0 + bytes(4) + b'\x30' + MAC1 + b'\x00' + _lab(101), 'mac label 101')
    # an unassigned route type is carried opaquely
    add(9, RDS[0] + b'\x01\x02\x03', 'unassigned type')
    return out


def hand_vpls():
    """RFC 4761 3.2.2: [len=17][RD 8][VE ID 2][VE block offset 2][VE block size 2][label base 3]."""
    out = []
    for rd in RDS[:3]:
        for ve, off, size, base in ((1, 1, 8, 10000), (0, 0, 0, 0), (65535, 65535, 65535, 1048575), (5, 1, 8, 10702)):
            if rd is not RDS[0] and ve != 1:
                continue
            body = rd + struct.pack('!HHH', ve, off, size) + _lab(base)
            out.append((25, 65, 'A', (struct.pack('!H', len(body)) + body).hex(), f'hand:rfc4761 ve={ve} offset={off} size={size} base={base}'))
    body = RDS[0] + struct.pack('!HHH', 2, 1, 8) + _lab(10000)
    out.append((25, 65, 'A', (struct.pack('!H', len(body)) + body).hex(), 'hand:rfc4761 ve=2'))
    return out


def hand_rtc():
    """RFC 4684 4: [len bits 0 | 32..96][origin AS 4][route target 8 (as far as the length goes)]."""
    out = [(1, 132, 'A', '00', 'hand:rfc4684 default')]
    rts = [bytes.fromhex('0002fde800000001'), bytes.fromhex('0102c000020100 05'.replace(' ', '')), bytes.fromhex('0202fa56ea000009'), bytes.fromhex('0002000000000000')]
    for asn in (65000, 4200000000, 0):
        for rt in rts:
            if asn != 65000 and rt is not rts[0]:
                continue
            out.append((1, 132, 'A', (b'\x60' + struct.pack('!L', asn) + rt).hex(), f'hand:rfc4684 /96 as={asn} rt={rt.hex()}'))
    # prefixes shorter than 96 bits (RFC 4684 4: "a prefix ... between 32 and 96 bits")
    out.append((1, 132, 'A', (b'\x20' + struct.pack('!L', 65000)).hex(), 'hand:rfc4684 /32 origin only'))
    out.append((1, 132, 'A', (b'\x30' + struct.pack('!L', 65000) + b'\x00\x02').hex(), 'hand:rfc4684 /48 origin + rt type'))
    out.append((1, 132, 'A', (b'\x40' + struct.pack('!L', 65000) + b'\x00\x02\xfd\xe8').hex(), 'hand:rfc4684 /64'))
    return out


def hand_mvpn():
    """RFC 6514 4: [type][len][route type specific]; types 5 (source active A-D), 6 (shared tree join), 7 (source tree join),
    plus 1-4 which this implementation keeps opaque."""
    out = []
    for afi, src, grp, rp in ((1, '10.99.12.4', '239.251.255.228', '10.99.199.1'), (2, 'fd12::4', 'ff0e::1', 'fd00::1')):
        bits = bytes([32 if afi == 1 else 128])
        for rd in RDS[:3]:
            for asn in (65000, 4200000000):
                if rd is not RDS[0] and asn != 65000:
                    continue
                a = struct.pack('!L', asn)
                for t, body, what in (
                    (5, rd + bits + _ip(src) + bits + _ip(grp), 'source-ad'),
                    (6, rd + a + bits + _ip(rp) + bits + _ip(grp), 'shared-join'),
                    (7, rd + a + bits + _ip(src) + bits + _ip(grp), 'source-join'),
                ):
                    out.append((afi, 5, 'A', (bytes([t, len(body)]) + body).hex(), f'hand:rfc6514 type{t} {what} as={asn}'))
        out.append((afi, 5, 'A', (bytes([1, 8 + len(_ip(src))]) + RDS[0] + _ip(src)).hex(), 'hand:rfc6514 type1 intra-as i-pmsi'))
        out.append((afi, 5, 'A', (bytes([2, 12]) + RDS[0] + struct.pack('!L', 65000)).hex(), 'hand:rfc6514 type2 inter-as i-pmsi'))
    return out


def hand_mup():
    """draft-mpmz-bess-mup-safi 3.1: [arch 1][type 2][len 1][value]; types 1 ISD, 2 DSD, 3 T1ST, 4 T2ST."""
    out = []

    def add(afi, t, body, what):
        out.append((afi, 85, 'A', (struct.pack('!BHB', 1, t, len(body)) + body).hex(), f'hand:mup type{t} {what}'))

    for afi, pfx, plen, addr in ((1, '10.0.1.0', 24, '10.0.0.1'), (2, '2001:db8:1::', 48, '2001:db8::1')):
        abits = 32 if afi == 1 else 128
        for rd in RDS[:3]:
            add(afi, 1, rd + bytes([plen]) + wire.prefix_bytes(pfx, plen), f'isd /{plen}')
            add(afi, 2, rd + _ip(addr), 'dsd')
            add(afi, 3, rd + bytes([abits]) + _ip(addr) + struct.pack('!LB', 12345, 9) + bytes([abits]) + _ip(addr), 't1st')
            add(afi, 4, rd + bytes([abits + 32]) + _ip(addr) + struct.pack('!L', 12345), 't2st teid/32')
        add(afi, 1, RDS[0] + bytes([0]), 'isd /0')
        add(afi, 1, RDS[0] + bytes([abits]) + _ip(addr), 'isd host')
        add(afi, 3, RDS[0] + bytes([abits]) + _ip(addr) + struct.pack('!LB', 0, 0) + bytes([abits]) + _ip(addr) + bytes([abits]) + _ip(addr), 't1st with source')
        add(afi, 4, RDS[0] + bytes([abits]) + _ip(addr), 't2st teid/0')
        add(afi, 4, RDS[0] + bytes([abits + 16]) + _ip(addr) + b'\x30\x39', 't2st teid/16')
    return out


def hand_srpolicy():
    """draft-ietf-idr-sr-policy-safi 2.1: [len bits 96|192][distinguisher 4][color 4][endpoint 4|16]."""
    out = []
    for afi, eps in ((1, ('10.0.0.1', '0.0.0.0', '255.255.255.255')), (2, ('2001:db8::1', '::', 'ffff:ffff:ffff:ffff:ffff:ffff:ffff:ffff'))):
        for ep in eps:
            for dist, color in ((0, 100), (1, 100), (0, 0), (0xFFFFFFFF, 0xFFFFFFFF)):
                if ep != eps[0] and (dist, color) != (0, 100):
                    continue
                body = struct.pack('!LL', dist, color) + _ip(ep)
                out.append((afi, 73, 'A', (bytes([len(body) * 8]) + body).hex(), f'hand:sr-policy dist={dist} color={color} ep={ep}'))
    return out


def _tlv(t: int, v: bytes) -> bytes:
    return struct.pack('!HH', t, len(v)) + v


def hand_bgpls(harvested):
    """RFC 7752 3.2 (node 1, link 2, prefix v4 3, prefix v6 4), RFC 9514 (SRv6 SID 6): [type 2][len 2][protocol 1][identifier 8]
    [descriptors]; SAFI 72 inserts an 8-byte RD after the length (RFC 7752 3.2)."""
    out = []

    def node_desc(t, asn, lsid, rid):
        return _tlv(t, _tlv(512, struct.pack('!L', asn)) + _tlv(513, struct.pack('!L', lsid)) + _tlv(515, rid))

    def add(t, body, what):
        out.append((16388, 71, 'A', (struct.pack('!HH', t, len(body)) + body).hex(), f'hand:rfc7752 type{t} {what}'))

    ident = struct.pack('!Q', 0)
    isis = bytes.fromhex('192168001001')
    ospf = _ip('10.0.0.1')
    for proto, rid in ((2, isis), (3, ospf), (1, isis), (2, bytes.fromhex('19216800100205')), (6, ospf + _ip('10.0.0.2'))):
        local = node_desc(256, 65000, 0, rid)
        remote = node_desc(257, 65000, 0, rid[:-1] + b'\x77')
        add(1, bytes([proto]) + ident + local, f'node proto={proto} rid={rid.hex()}')
        add(2, bytes([proto]) + ident + local + remote + _tlv(259, _ip('10.1.1.1')) + _tlv(260, _ip('10.1.1.2')), f'link v4 proto={proto}')
        add(3, bytes([proto]) + ident + local + _tlv(265, b'\x18' + bytes([10, 2, 3])), f'prefix4 /24 proto={proto}')
        add(4, bytes([proto]) + ident + local + _tlv(265, b'\x40' + _ip('2001:db8:1:2::')[:8]), f'prefix6 /64 proto={proto}')
    local = node_desc(256, 65000, 0, isis)
    remote = node_desc(257, 65000, 0, isis[:-1] + b'\x77')
    add(1, b'\x02' + struct.pack('!Q', 1) + local, 'node identifier=1')
    add(2, b'\x02' + ident + local + remote + _tlv(258, struct.pack('!LL', 1, 2)), 'link local/remote id')
    add(2, b'\x02' + ident + local + remote + _tlv(261, _ip('2001:db8::1')) + _tlv(262, _ip('2001:db8::2')), 'link v6')
    add(2, b'\x02' + ident + local + remote + _tlv(263, struct.pack('!H', 2)) + _tlv(259, _ip('10.1.1.1')), 'link mt-id')
    add(3, b'\x03' + ident + node_desc(256, 65000, 0, ospf) + _tlv(264, b'\x01') + _tlv(265, b'\x20' + _ip('10.2.3.4')), 'prefix4 ospf route type')
    add(3, b'\x02' + ident + local + _tlv(265, b'\x00'), 'prefix4 /0')
    add(6, b'\x02' + ident + local + _tlv(518, _ip('2001:db8:0:1::')), 'srv6 sid')
    add(6, b'\x02' + ident + local + _tlv(263, struct.pack('!H', 2)) + _tlv(518, _ip('2001:db8:0:2::')), 'srv6 sid mt-id')
    add(5, b'\x02' + ident + local, 'type 5 (te policy) kept opaque')
    # SAFI 72: every SAFI 71 member (harvested and hand) behind each RD type
    base = [(bytes.fromhex(h), src) for (a, s, act, h), src in sorted(harvested.items()) if (a, s) == (16388, 71)]
    base += [(bytes.fromhex(h), src) for a, s, act, h, src in out]
    for i, (b, src) in enumerate(base):
        # every member behind one RD, the first three behind every RD (members which differ in the RD only)
        for rd in (RDS[:3] if i < 3 else [RDS[i % 3]]):
            t, ln = struct.unpack('!HH', b[:4])
            out.append((16388, 72, 'A', (struct.pack('!HH', t, ln + 8) + rd + b[4:]).hex(), f'hand:rfc7752 vpn rd={rd.hex()} of [{src}]'))
    return out


def hand_flow():
    """RFC 8955 4 / RFC 8956 3: [len 1|2][components in ascending type order]; flow-vpn puts an 8-byte RD first (RFC 8955 8)."""
    out = []

    def add(afi, safi, body, what):
        ln = bytes([len(body)]) if len(body) < 240 else struct.pack('!H', 0xF000 | len(body))
        out.append((afi, safi, 'A', (ln + body).hex(), f'hand:rfc8955 {what}'))

    v4 = [
        (b'\x01\x00', 'dst /0'), (b'\x01\x01\x80', 'dst /1'), (b'\x01\x18\x0a\x01\x02', 'dst /24'), (b'\x01\x20\x0a\x01\x02\x03', 'dst /32'),
        (b'\x02\x19\x0a\x01\x02\x80', 'src /25'), (b'\x01\x18\x0a\x01\x02\x02\x18\x0a\x09\x08', 'dst+src'),
        (b'\x03\x81\x06', 'proto =6'), (b'\x03\x01\x06\x81\x11', 'proto =6 =17'), (b'\x04\x03\x50\xc5\x5a', 'port >=80&<=90'),
        (b'\x05\x91\x01\xbb', 'dport =443 (2 bytes)'), (b'\x06\x81\x35', 'sport =53'), (b'\x07\x81\x08', 'icmp-type'), (b'\x08\x81\x00', 'icmp-code'),
        (b'\x09\x81\x02', 'tcp-flags syn'), (b'\x0a\x12\x00\xc8\xd4\x01\x2c', 'length >=200&<=300'), (b'\x0b\x81\x2e', 'dscp'), (b'\x0c\x81\x01', 'fragment'),
        (b'\x01\x20\x0a\x00\x00\x01\x03\x81\x06\x05\x81\x50\x09\x81\x12', 'dst proto dport flags'),
        (b'\x05' + b''.join(b'\x11' + struct.pack('!H', 1000 + i) for i in range(79)) + b'\x91\x27\x0f', 'dport list making a 2-byte length'),
    ]
    for body, what in v4:
        add(1, 133, body, what)
        for rd in (RDS[:3] if what in ('dst /24', 'proto =6') else RDS[:1]):
            add(1, 134, rd + body, f'rd={rd.hex()} {what}')
    v6 = [
        (b'\x01\x00\x00', 'dst /0'), (b'\x01\x40\x00\x20\x01\x0d\xb8\x00\x01\x00\x02', 'dst /64'), (b'\x01\x80\x00' + _ip('2001:db8::1'), 'dst /128'),
        # no member with a non-zero offset: ExaBGP keeps the pre-RFC 8956 pattern layout (C16 open findings encode/decode prefix6 offset>0)
        (b'\x02\x30\x00\x20\x01\x0d\xb8\x00\x01', 'src /48'),
        (b'\x03\x81\x3a', 'next-header =58'), (b'\x05\x91\x01\xbb', 'dport =443'), (b'\x0d\xa1\x00\x0f\xff\xff', 'flow-label 4 bytes'),
        (b'\x0b\x81\x2e', 'traffic-class'), (b'\x0c\x81\x01', 'fragment'),
        (b'\x01\x80\x00' + _ip('2001:db8::1') + b'\x02\x80\x00' + _ip('2001:db8::2') + b'\x03\x81\x06', 'dst src next-header'),
    ]
    for body, what in v6:
        add(2, 133, body, what)
        for rd in (RDS[:3] if what in ('dst /64', 'next-header =58') else RDS[:1]):
            add(2, 134, rd + body, f'rd={rd.hex()} {what}')
    return out


def hand_nlri(harvested):
    out = hand_ip() + hand_evpn() + hand_vpls() + hand_rtc() + hand_mvpn() + hand_mup() + hand_srpolicy() + hand_flow()
    out += hand_bgpls(harvested)
    return out


# ---- attributes ---------------------------------------------------------------------------------
def hand_attrs():
    """-> [(code, flags, asn4, hex value, source)]; flags are the canonical ones of the attribute (RFC 4271 5 and the defining RFCs)."""
    O, T = 0x80, 0x40
    out = []

    def add(code, flags, v, what, asn4=True):
        out.append((code, flags, asn4, v.hex(), f'hand:{what}'))

    for v in (0, 1, 2):
        add(1, T, bytes([v]), f'rfc4271 origin {v}')
    paths = [(), ((2, (65001,)),), ((2, (65001, 65002, 65003)),), ((1, (65001, 65002)),), ((3, (65100,)), (2, (65001,))), ((4, (65100, 65101)),),
             ((2, (65001,)), (1, (65010, 65011))), ((2, tuple(range(64512, 64512 + 255))),)]
    for p in paths:
        add(2, T, wire.encode_as_path(p, True), f'rfc4271 as-path asn4 {str(p)[:60]}', True)
        add(2, T, wire.encode_as_path(p, False), f'rfc4271 as-path asn2 {str(p)[:60]}', False)
        if p:
            add(17, O | T, wire.encode_as_path(p, True), f'rfc6793 as4-path {str(p)[:60]}')
    for p in (((2, (4200000000,)),), ((2, (65001, 70000)), (1, (70001, 65010)))):
        add(2, T, wire.encode_as_path(p, True), f'rfc6793 as-path asn4 {p}', True)
        add(17, O | T, wire.encode_as_path(p, True), f'rfc6793 as4-path {p}')
    for a in ('0.0.0.1', '10.0.0.1', '127.0.0.1', '192.0.2.1', '223.255.255.254', '255.255.255.255'):
        add(3, T, _ip(a), f'rfc4271 next-hop {a}')
        add(9, O, _ip(a), f'rfc4456 originator-id {a}')
    for v in (0, 1, 100, 65536, 2**31, 2**32 - 1):
        add(4, O, struct.pack('!L', v), f'rfc4271 med {v}')
        add(5, T, struct.pack('!L', v), f'rfc4271 local-pref {v}')
    add(6, T, b'', 'rfc4271 atomic-aggregate')
    for asn, ip in ((65001, '10.0.0.1'), (0, '0.0.0.0'), (65535, '255.255.255.255'), (23456, '192.0.2.1')):
        add(7, O | T, struct.pack('!H', asn) + _ip(ip), f'rfc4271 aggregator asn2 {asn}', False)
    for asn, ip in ((65001, '10.0.0.1'), (0, '0.0.0.0'), (4294967295, '255.255.255.255'), (4200000000, '192.0.2.1'), (23456, '192.0.2.1'), (65536, '10.0.0.2')):
        add(7, O | T, struct.pack('!L', asn) + _ip(ip), f'rfc6793 aggregator asn4 {asn}', True)
        add(18, O | T, struct.pack('!L', asn) + _ip(ip), f'rfc6793 as4-aggregator {asn}')
    for cs in ((0x00010002,), (0xFFFFFF01,), (0xFFFFFF02,), (0xFFFFFF03,), (0xFFFF029A,), (0,), (0xFFFFFFFF,), (0x00010002, 0x00010003, 0xFDE80001), (0x00010002, 0xFFFFFF01)):
        add(8, O | T, b''.join(struct.pack('!L', c) for c in cs), f'rfc1997 communities {[hex(c) for c in cs]}')
    for cl in (('10.0.0.1',), ('0.0.0.0',), ('255.255.255.255',), ('10.0.0.1', '10.0.0.2'), ('10.0.0.2', '10.0.0.1'), ('1.1.1.1', '2.2.2.2', '3.3.3.3', '4.4.4.4')):
        add(10, O, b''.join(_ip(c) for c in cl), f'rfc4456 cluster-list {cl}')
    # extended communities: one per registered sub-type (RFC 4360, 5668, 7153 registries), then sets
    ext = [
        ('0002fde800000001', 'rt 2-byte as'), ('0102c00002010005', 'rt ipv4'), ('0202fa56ea000009', 'rt 4-byte as'),
        ('0003fde800000001', 'origin 2-byte as'), ('0103c00002010005', 'origin ipv4'), ('0203fa56ea000009', 'origin 4-byte as'),
        ('4002fde800000001', 'non-transitive rt-like'), ('0005fde800000001', 'ospf domain id'), ('0008fde800000001', 'bgp data collection'),
        ('000afde800000001', 'l2vpn id'), ('4004fde849742400', 'link bandwidth (non-transitive)'), ('0004fde849742400', 'link bandwidth transitive'),
        ('030c000000000008', 'encapsulation vxlan'), ('030c000000000001', 'encapsulation l2tpv3'), ('030d000000000000', 'default gateway'),
        ('03000a0000010000', 'ospf route type'), ('030b000000000064', 'color'),
        ('0600010000000005', 'mac mobility sticky'), ('0600000000000001', 'mac mobility seq 1'), ('0601000000000064', 'esi label'), ('0602001122334455', 'es-import rt'), ('0603001122334455', 'router mac'),
        ('800a1300 05dc006f'.replace(' ', ''), 'l2info'), ('8006000049742400', 'flowspec traffic-rate'), ('8006fde800000000', 'flowspec traffic-rate 0 with as'),
        ('8007000000000003', 'flowspec traffic-action'), ('8008fde800000077', 'flowspec redirect 2-byte as'), ('8108c00002010005', 'flowspec redirect ipv4'),
        ('8208fa56ea000009', 'flowspec redirect 4-byte as'), ('800900000000002e', 'flowspec traffic-marking'), ('0800000000000000', 'flowspec redirect-to-nexthop (draft simpson)'),
        ('010bc00002010000', 'redirect to ip (draft-ietf-idr-flowspec-redirect-ip) copy 0'), ('010bc00002010001', 'redirect to ip copy 1'),
        ('0c00fde800000001', 'mup direct segment'), ('0702fde800010001', 'flowspec interface-set'),
        ('4300000000000000', 'unknown type 0x43'), ('9900112233445566', 'unknown type 0x99'),
    ]
    for hx, what in ext:
        add(16, O | T, bytes.fromhex(hx), f'ext-community {what}')
    add(16, O | T, bytes.fromhex('0002fde800000001' + '0002fde800000002'), 'ext-community two rts ascending')
    add(16, O | T, bytes.fromhex('0002fde800000001' + '0102c00002010005' + '030c000000000008'), 'ext-community rt rt encap ascending')
    add(16, O | T, bytes.fromhex('0002fde800000001' + '800a130005dc006f'), 'ext-community rt l2info')
    # IPv6 address specific extended community (RFC 5701 2): [type 0x00|0x40][sub-type][ipv6 16][local 2]
    for t, st, ip, loc, what in ((0x00, 0x02, '2001:db8::1', 5, 'rt'), (0x00, 0x03, '2001:db8::1', 5, 'origin'), (0x40, 0x02, '2001:db8::2', 0, 'non-transitive rt'),
                                 (0x00, 0x0c, '2001:db8::3', 0, 'flowspec redirect ipv6 (draft)'), (0x00, 0x0d, '2001:db8::4', 1, 'redirect-to-ipv6'),
                                 (0x00, 0x02, '::', 0, 'rt zero'), (0x00, 0x02, 'ffff:ffff:ffff:ffff:ffff:ffff:ffff:ffff', 65535, 'rt max')):
        add(25, O | T, bytes([t, st]) + _ip(ip) + struct.pack('!H', loc), f'rfc5701 {what}')
    add(25, O | T, bytes([0, 2]) + _ip('2001:db8::1') + struct.pack('!H', 5) + bytes([0, 2]) + _ip('2001:db8::1') + struct.pack('!H', 6), 'rfc5701 two rts')
    # PMSI tunnel (RFC 6514 5): [flags 1][tunnel type 1][label 3][tunnel identifier]
    pm = [
        (0, 0, 0, b'', 'no tunnel'), (1, 0, 0, b'', 'no tunnel, leaf information required'),
        (0, 1, 100, _ip('10.0.0.1') + b'\x00\x00' + struct.pack('!H', 7) + _ip('10.0.0.1'), 'rsvp-te p2mp lsp'),
        (0, 2, 100, b'\x06\x00\x01\x04' + _ip('10.0.0.1') + b'\x00\x07\x01\x00\x04\x00\x00\x00\x01', 'mldp p2mp lsp'),
        (0, 3, 100, _ip('10.0.0.1') + _ip('232.1.1.1'), 'pim-ssm'), (0, 4, 100, _ip('10.0.0.1') + _ip('239.1.1.1'), 'pim-sm'),
        (0, 5, 100, _ip('10.0.0.1') + _ip('239.1.1.1'), 'bidir-pim'), (0, 6, 100, _ip('10.0.0.1'), 'ingress replication v4'),
        (0, 6, 1048575, _ip('2001:db8::1'), 'ingress replication v6'), (0, 6, 0, _ip('10.0.0.2'), 'ingress replication label 0'),
        (0, 7, 100, b'\x08\x00\x01\x04' + _ip('10.0.0.1') + b'\x00\x07\x01\x00\x04\x00\x00\x00\x01', 'mldp mp2mp lsp'),
        (0, 0x0b, 100, _ip('10.0.0.1'), 'assisted replication (rfc9574 type 0x0b)'),
    ]
    for flags, tt, label, tid, what in pm:
        add(22, O | T, bytes([flags, tt]) + (label << 4).to_bytes(3, 'big') + tid, f'rfc6514 pmsi {what}')
    for v in (0, 1, 100, 2**32, 2**63, 2**64 - 1):
        add(26, O, b'\x01\x00\x0b' + struct.pack('!Q', v), f'rfc7311 aigp {v}')
    for lc in (((1, 2, 3),), ((0, 0, 0),), ((4294967295, 4294967295, 4294967295),), ((65000, 1, 1), (65000, 1, 2)), ((1, 2, 3), (4294967295, 0, 1)), ((65000, 0, 0), (65000, 0, 1), (65001, 0, 0))):
        add(32, O | T, b''.join(struct.pack('!LLL', *c) for c in lc), f'rfc8092 large {lc}')
    # prefix-SID (RFC 8669 3: label-index 1, originator SRGB 3; RFC 9252 2-3: SRv6 L3 service 5, L2 service 6)
    def ptlv(t, v):
        return bytes([t]) + struct.pack('!H', len(v)) + v
    for idx in (0, 1, 300, 2**32 - 1):
        add(40, O | T, ptlv(1, b'\x00' + b'\x00\x00' + struct.pack('!L', idx)), f'rfc8669 label-index {idx}')
    add(40, O | T, ptlv(1, b'\x00\x00\x00' + struct.pack('!L', 7)) + ptlv(3, b'\x00\x00' + (16000).to_bytes(3, 'big') + (8000).to_bytes(3, 'big')), 'rfc8669 label-index + srgb')
    add(40, O | T, ptlv(1, b'\x00\x00\x00' + struct.pack('!L', 7)) + ptlv(3, b'\x00\x00' + (16000).to_bytes(3, 'big') + (8000).to_bytes(3, 'big') + (800000).to_bytes(3, 'big') + (4096).to_bytes(3, 'big')), 'rfc8669 label-index + two srgb ranges')
    sidstruct = bytes([1]) + struct.pack('!H', 6) + bytes([40, 24, 16, 0, 16, 64])
    for t in (5, 6):
        for beh in (0x13, 0x14, 0xFFFF):
            info = b'\x00' + _ip('2001:db8:1:1::') + b'\x00' + struct.pack('!H', beh) + b'\x00'
            add(40, O | T, ptlv(t, b'\x00' + ptlv(1, info + sidstruct)), f'rfc9252 srv6 service tlv {t} behavior {beh:#x} + sid structure')
        info = b'\x00' + _ip('2001:db8:1:2::') + b'\x00' + struct.pack('!H', 0x13) + b'\x00'
        add(40, O | T, ptlv(t, b'\x00' + ptlv(1, info)), f'rfc9252 srv6 service tlv {t} without sid structure')
    # tunnel encapsulation (RFC 9012 2: [tunnel type 2][len 2][sub-TLVs: type 1, len 1 (2 when type >= 128), value]),
    # SR policy (type 15) sub-TLVs of RFC 9830 2.4: preference 12, binding SID 13, ENLP 14, priority 15, segment list 128, policy name 130
    def sub(t, v):
        return bytes([t]) + (struct.pack('!H', len(v)) if t >= 128 else bytes([len(v)])) + v
    def tun(t, v):
        return struct.pack('!HH', t, len(v)) + v
    pref = sub(12, b'\x00\x00' + struct.pack('!L', 100))
    # The members are written in the form ExaBGP itself emits (a weight sub-TLV in every segment list, S bit on the last
    # label of a list and on a binding SID label, binding SID flags 0x10): RFC 9830 makes the weight optional (default 1) and
    # the TC/S/TTL bits "ignored on receipt", the decoder does not keep them, so other spellings of the same policy are not
    # canonical for this codec and re-encode to this one (tried, and dropped from the alphabet).
    def seg_a(label, last):
        return bytes([1, 6, 0, 0]) + ((label << 12) | (0x100 if last else 0)).to_bytes(4, 'big')
    weight = bytes([9, 6, 0, 0]) + struct.pack('!L', 1)
    weight9 = bytes([9, 6, 0, 0]) + struct.pack('!L', 9)
    seg_b = bytes([13, 18, 0, 0]) + _ip('2001:db8::1')
    bsid4 = sub(13, b'\x10\x00' + ((1000 << 12) | 0x100).to_bytes(4, 'big'))
    te = [
        (tun(15, sub(128, b'\x00' + weight + seg_a(100, True))), 'segment list one type A'),
        (tun(15, pref + sub(128, b'\x00' + weight + seg_a(100, True))), 'preference + segment list'),
        (tun(15, pref + bsid4 + sub(128, b'\x00' + weight9 + seg_a(100, False) + seg_a(200, True))), 'preference + binding sid label + weight 9 + two segments'),
        (tun(15, sub(13, b'\x00\x00') + sub(128, b'\x00' + weight + seg_a(100, True))), 'binding sid empty'),
        (tun(15, pref + sub(128, b'\x00' + weight + seg_b)), 'segment type B (srv6)'),
        (tun(15, pref + sub(15, b'\x05\x00') + sub(128, b'\x00' + weight + seg_a(100, True)) + sub(128, b'\x00' + weight9 + seg_a(200, True))), 'priority + two segment lists'),
        (tun(15, pref + sub(128, b'\x00' + weight + seg_a(100, True)) + sub(130, b'\x00' + b'policy-1')), 'policy name'),
        (tun(15, pref + sub(129, b'\x00' + b'cpath-1') + sub(128, b'\x00' + weight + seg_a(100, True))), 'candidate path name'),
        # RFC 9830 2.4.2: the Binding SID sub-TLV is 2, 6 or 18 octets long; 18 carries an SRv6 SID
        (tun(15, sub(13, b'\x00\x00' + _ip('2001:db8::99')) + sub(128, b'\x00' + weight + seg_a(100, True))), 'binding sid of 18 octets (srv6 sid)'),
        # a sub-TLV the implementation has no class for (ENLP, type 14, RFC 9830 2.4.5) is kept opaque
        (tun(15, pref + sub(14, b'\x00\x00\x01') + sub(128, b'\x00' + weight + seg_a(100, True))), 'enlp sub-tlv (kept opaque)'),
    ]
    for v, what in te:
        add(23, O | T, v, f'rfc9830 sr-policy tunnel encap {what}')
    # BGP-LS attribute (RFC 7752 3.3, RFC 9085): one TLV per member
    ls = [
        (1024, b'\x80', 'node flag bits'), (1026, b'router-1', 'node name'), (1027, bytes.fromhex('490001'), 'isis area'), (1028, _ip('10.0.0.1'), 'local ipv4 router id'),
        (1029, _ip('2001:db8::1'), 'local ipv6 router id'), (1030, _ip('10.0.0.2'), 'remote ipv4 router id'), (1088, struct.pack('!L', 0xFF), 'admin group'),
        (1089, struct.pack('!f', 1.25e9), 'max link bandwidth'), (1090, struct.pack('!f', 1.25e9), 'max reservable bandwidth'), (1091, struct.pack('!f', 1.0e6) * 8, 'unreserved bandwidth'),
        (1092, struct.pack('!L', 10), 'te default metric'), (1095, b'\x00\x00\x0a', 'igp metric 3 bytes'), (1095, b'\x0a', 'igp metric 1 byte'), (1095, b'\x00\x0a', 'igp metric 2 bytes'),
        (1096, struct.pack('!LLL', 1, 2, 3), 'srlg'), (1098, b'link-1', 'link name'), (1152, b'\x80', 'igp flags'), (1155, struct.pack('!L', 20), 'prefix metric'),
        (1156, _ip('10.9.9.9'), 'ospf forwarding address'),
        (1034, b'\x80\x00' + (8000).to_bytes(3, 'big') + _tlv(1161, (16000).to_bytes(3, 'big')), 'sr capabilities one range'),
        (1099, b'\x30\x00\x00\x00' + (1000).to_bytes(3, 'big'), 'adjacency sid label'), (1158, b'\x00\x00\x00\x00' + struct.pack('!L', 100), 'prefix sid index'),
    ]
    for t, v, what in ls:
        add(29, O, _tlv(t, v), f'rfc7752 bgp-ls attribute tlv {t} {what}')
    add(29, O, _tlv(1028, _ip('10.0.0.1')) + _tlv(1088, struct.pack('!L', 1)) + _tlv(1092, struct.pack('!L', 10)) + _tlv(1095, b'\x00\x00\x0a'), 'rfc7752 bgp-ls attribute four link tlvs')
    return out


# ---------------------------------------------------------------------------------------------
# (a) text
# ---------------------------------------------------------------------------------------------
HAND_API = [
    # boundary text members for the IP families (the qa files only hold /8 /24 /25 /32 /48 /128)
    'announce route 0.0.0.0/0 next-hop 10.0.0.1',
    'announce route 128.0.0.0/1 next-hop 10.0.0.1',
    'announce route 10.1.2.128/25 next-hop 10.0.0.1 path-information 0.0.0.1',
    'announce route 10.1.2.128/25 next-hop 10.0.0.1 path-information 255.255.255.255',
    'announce route 10.1.2.128/25 next-hop 10.0.0.1 path-information 0.0.0.0',
    'announce route ::/0 next-hop 2001:db8::1',
    'announce route 2001:db8::/32 next-hop 2001:db8::1 path-information 0.0.0.1',
    'announce route 2001:db8:1:2:3:4:5:6/128 next-hop 2001:db8::1',
    'announce route 10.1.2.0/24 next-hop 10.0.0.1 label [ 16 ]',
    'announce route 10.1.2.0/24 next-hop 10.0.0.1 label [ 17 ]',
    'announce route 10.1.2.0/24 next-hop 10.0.0.1 label [ 16 17 ]',
    'announce route 10.1.2.0/24 next-hop 10.0.0.1 label [ 16 17 18 ]',
    'announce route 10.1.2.0/24 next-hop 10.0.0.1 label [ 16 ] path-information 0.0.0.1',
    'announce route 2001:db8:1::/48 next-hop 2001:db8::1 label [ 16 ]',
    'announce route 10.1.2.0/24 next-hop 10.0.0.1 label [ 16 ] rd 65000:1',
    'announce route 10.1.2.0/24 next-hop 10.0.0.1 label [ 16 ] rd 65000:2',
    'announce route 10.1.2.0/24 next-hop 10.0.0.1 label [ 17 ] rd 65000:1',
    'announce route 10.1.2.0/24 next-hop 10.0.0.1 label [ 16 ] rd 192.0.2.1:5',
    'announce route 10.1.2.0/24 next-hop 10.0.0.1 label [ 16 ] rd 4200000000:9',
    'announce route 10.1.2.0/24 next-hop 10.0.0.1 label [ 16 17 ] rd 65000:1 path-information 0.0.0.1',
    'announce route 2001:db8:1::/48 next-hop 2001:db8::1 label [ 16 ] rd 65000:1',
    'announce ipv4 multicast 10.1.2.0/24 next-hop 10.0.0.1',
    'announce ipv4 multicast 10.1.2.0/24 next-hop 10.0.0.1 path-information 0.0.0.1',
    'announce ipv4 unicast 10.1.2.0/24 next-hop 10.0.0.1',
    'announce ipv6 multicast 2001:db8:1::/48 next-hop 2001:db8::1',
    # one attribute of every keyword
    'announce route 10.9.0.0/16 next-hop 10.0.0.1 origin egp as-path [ 65001 [ 65002 65003 ] ] med 4294967295 local-preference 0 atomic-aggregate aggregator ( 65001:10.0.0.9 )',
    'announce route 10.9.1.0/24 next-hop 10.0.0.1 as-path [ 4200000000 65001 ] aggregator ( 4200000000:10.0.0.9 ) community [ 65000:1 no-export 0:0 65535:65535 ]',
    'announce route 10.9.2.0/24 next-hop 10.0.0.1 large-community [ 1:2:3 4294967295:0:1 ] extended-community [ target:65000:1 origin:192.0.2.1:5 target:4200000000:7 ] originator-id 10.0.0.9 cluster-list [ 10.0.0.1 10.0.0.2 ]',
    'announce route 10.9.3.0/24 next-hop 10.0.0.1 aigp 18446744073709551615 attribute [ 0x99 0xc0 0x0102 ]',
    'announce route 10.9.4.0/24 next-hop 10.0.0.1 as-path [ ]',
]


def harvest_text():
    api = []
    seen = set()
    for f in sorted(glob.glob(os.path.join(REPO, 'qa/encoding/*.ci'))):
        for line in open(f):
            m = re.match(r'^\d+:cmd:(.*)$', line.rstrip('\n'))
            if m and m.group(1) not in seen:
                seen.add(m.group(1))
                api.append((os.path.basename(f), m.group(1)))
    for line in HAND_API:
        if line not in seen:
            seen.add(line)
            api.append(('hand', line))
    confs = []
    for f in sorted(glob.glob(os.path.join(REPO, 'etc/exabgp/*.conf'))):
        text = open(f).read()
        # the text-mode tokeniser reads line by line: join the backslash continuations the file-mode reader accepts
        text = re.sub(r'\\\n', ' ', text)
        # the parser insists that the program of a process section exists (it is never started here)
        text = re.sub(r'(?m)^(\s*run)\s+[^;]*;', r'\1 /bin/true;', text)
        confs.append((os.path.basename(f), text))
    return api, confs


def main():
    os.makedirs(os.path.join(OUT, 'conf'), exist_ok=True)
    nl, at, unfit = harvest_wire()
    if unfit:
        print('messages that did not frame in any (asn4, addpath) context:', unfit)
    rows = [(a, s, act, h, src) for (a, s, act, h), src in sorted(nl.items())]
    seen = {(a, s, act, h) for a, s, act, h, _ in rows}
    for a, s, act, h, src in hand_nlri(nl):
        if (a, s, act, h) not in seen:
            seen.add((a, s, act, h))
            rows.append((a, s, act, h, src))
    with open(os.path.join(OUT, 'nlri.txt'), 'w') as f:
        f.write('# afi\tsafi\taction\thex (one NLRI, no path identifier)\tsource\n')
        for r in rows:
            f.write('\t'.join(str(x) for x in r) + '\n')
    arows = [(c, fl, a4 if a4 == 'ap' else int(a4), h, src) for (c, fl, a4, h), src in sorted(at.items(), key=str)]
    aseen = {(c, fl, a4, h) for c, fl, a4, h, _ in arows}
    for c, fl, a4, h, src in hand_attrs():
        if (c, fl, int(a4), h) not in aseen:
            aseen.add((c, fl, int(a4), h))
            arows.append((c, fl, int(a4), h, src))
    with open(os.path.join(OUT, 'attrs.txt'), 'w') as f:
        f.write('# code\tflags\tasn4\thex (attribute value)\tsource\n')
        for c, fl, a4, h, src in arows:
            f.write(f'{c}\t{fl:02x}\t{a4}\t{h}\t{src}\n')
    api, confs = harvest_text()
    # ---- from here exabgp is used, to record what the tree of the day makes of the text members
    from vt.checks import c15
    status = c15.harvest_text_status(api, confs)
    with open(os.path.join(OUT, 'api_lines.txt'), 'w') as f:
        f.write('# status (A accepted, R refused, X exception at harvest time)\tsource\tcommand\n')
        for (src, line), st in zip(api, status['api']):
            f.write(f'{st}\t{src}\t{line}\n')
    for name in os.listdir(os.path.join(OUT, 'conf')):
        os.unlink(os.path.join(OUT, 'conf', name))
    with open(os.path.join(OUT, 'conf_index.txt'), 'w') as f:
        f.write('# name\troutes at harvest time\n')
        for (name, text), n in zip(confs, status['conf']):
            if n > 0:
                with open(os.path.join(OUT, 'conf', name), 'w') as g:
                    g.write(text)
                f.write(f'{name}\t{n}\n')
    print(f'nlri members {len(rows)}  attribute members {len(arows)}  api lines {len(api)}  conf files {sum(1 for n in status["conf"] if n > 0)}')
    c15.coverage_report()


if __name__ == '__main__':
    main()
