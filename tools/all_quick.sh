#!/bin/sh
# tools/all_quick.sh [seed]  -- every quick check in turn against /repo; prints the summary line and any VIOLATION
cd /verif
for i in 01 02 03 04 05 06 07 08 09 10 11 12 13 14 15 16 17 18 19 20; do
  VERIF_SEED=${1:-0} ./check C$i quick > /var/tmp/allq-C$i.log 2>&1; rc=$?
  echo "C$i rc=$rc $(grep -c '^KNOWN-FINDING' /var/tmp/allq-C$i.log) known | $(tail -1 /var/tmp/allq-C$i.log | cut -c1-150)"
  grep -E "^VIOLATION|^HARNESS" /var/tmp/allq-C$i.log | head -5
done
rm -f /var/tmp/allq-C*.log
