#!/usr/bin/env python3
"""tools/store_seed.py <seed-dir> <property> <name> <caught:yes|no|after-strengthening> "<needs>" "<check result line>" """
import json, os, shutil, sys, glob
seed, pid, name, caught, needs, result = sys.argv[1:7]
dst = os.path.join('/verif/seeded', name)
os.makedirs(dst, exist_ok=True)
shutil.copy(os.path.join(seed, 'patch.diff'), dst)
for f in glob.glob(os.path.join(seed, 'demo_*.py')):
    shutil.copy(f, dst)
if os.path.exists(os.path.join(seed, 'SEED_NOTES.md')):
    shutil.copy(os.path.join(seed, 'SEED_NOTES.md'), dst)
meta = {
    'property': pid,
    'breaks': pid,
    'needs_to_manifest': needs,
    'origin': 'fresh sub-agent given only the property text and a scratch worktree',
    'confirmed': {
        'applies_to_repo_head': True,
        'repository_suite_with_change': 'passes (tools/confirm_seed.sh: 5208 passed, baseline always-fail test deselected)',
        'demo_with_change': 'fails',
        'demo_without_change': 'passes',
        'command': f'tools/confirm_seed.sh <seed-dir> {pid}',
    },
    'detected_by_check': caught,
    'check_result': result,
}
json.dump(meta, open(os.path.join(dst, 'meta.json'), 'w'), indent=1)
print('stored', dst)
